#!/usr/bin/env python3
"""Regenerates /verif/MANIFEST.json from tools/claims.d/*.json (claimed properties) and tools/not_applicable.json."""
import json, os
root = os.path.dirname(os.path.dirname(os.path.abspath(__file__)))
import glob
claims = [json.load(open(f)) for f in sorted(glob.glob(os.path.join(root, "tools/claims.d/*.json")))]
na = json.load(open(os.path.join(root, "tools/not_applicable.json")))
baseline = json.load(open("/root/.vp/BASELINE.json"))["cmd"]
checks = []
for c in claims:
    pid = c["id"]
    checks.append({
        "property_id": pid,
        "quick_cmd": f"bin/gosym check {pid} --tier quick",
        "thorough_cmd": f"bin/gosym check {pid} --tier thorough",
        "evidence_file": f"/verif/evidence/{pid}.json",
        "replay_cmd_template": f"bin/gosym replay {pid} {{path}}",
        "engine": "gosym",
        "level_claimed": {
            "category": "model_checking",
            "text": c["text"],
            "design_ref": c.get("design_ref", f"DESIGN.md §3 {pid}"),
        },
        "level_note": c["note"],
        "technique": c.get("technique", "bounded symbolic execution of the real go/ssa code (built from /repo's current sources on every run) with z3 deciding every path condition and assertion; counter-examples replayed against the natively compiled code"),
    })
claimed = {c["id"] for c in claims}
man = {
    "version": 1,
    "setup_cmd": "cd /verif/engine && GOFLAGS=-mod=mod GOPROXY=off go build -o /verif/bin/gosym .",
    "hooks": {
        "guard": "verif",
        "enable": "no hooks: harnesses and the verif* support file are injected into the real packages by go/packages overlays (engine) and `go test -overlay` (native replay); /repo needs no instrumentation",
        "baseline_off_cmd": baseline,
        "source_commits": [],
        "add_only": True,
    },
    "engines": [{
        "name": "gosym",
        "path": "/verif/engine",
        "serves_properties": sorted(claimed),
        "kind_free_text": "symbolic executor for go/ssa (x/tools v0.29.0) written for this task: stateless choice-vector exploration, BV and INT encodings, goroutine scheduler with preemption bounding, z3 4.8.12 via `z3 -in` (z3 5.1.0 cross-check in the thorough tier), native replay of models through `go test -overlay`",
    }],
    "checks": checks,
    "notes": "Exit 1 only together with a VIOLATION line for a counter-example reproduced against the natively compiled real code. Bounds hit, unsupported constructs, solver unknowns and unconfirmed counter-examples are printed as INCONCLUSIVE (exit 0) and recorded in the evidence file (coverage.inconclusive). Known findings: /verif/KNOWN_FINDINGS.",
    "not_applicable": [x for x in na if x["property_id"] not in claimed],
}
json.dump(man, open(os.path.join(root, "MANIFEST.json"), "w"), indent=1)
print("claimed", len(checks), "not_applicable", len(man["not_applicable"]))
