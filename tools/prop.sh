#!/bin/sh
python3 -c "
import json,sys
ids=sys.argv[1:]
for l in open('/verif/properties.jsonl'):
    p=json.loads(l)
    if p['id'] in ids:
        print(p['id'], p['title']); print(' S:', p['statement']); print(' Q:', p['quantifier']['text']); print(' W:', p['why_tests_cant']); print(' A:', json.dumps(p['anchors'])); print()
" "$@"
