#!/bin/bash
# usage: seed3.sh <ID> [<pkgdir>] — third-round seed: confirm in its scratch worktree (/tmp/seed3/<ID>), store as seeded/<ID>c, run the quick check on /repo with the patch, undo.
ID=$1; NAME=${ID}c
SEED_NAME=$NAME /verif/tools/seed_confirm.sh $ID /tmp/seed3/$ID $2 | tee /tmp/seed3/$ID/confirm.log
grep -q '^CONFIRMED' /tmp/seed3/$ID/confirm.log || exit 1
/verif/tools/seed_run.sh $NAME ${PROP:-$ID} ${TIER:-quick} | tee /tmp/seed3/$ID/run.log
