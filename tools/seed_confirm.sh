#!/bin/bash
# usage: seed_confirm.sh <ID> [<seeddir>]  — confirms a seeded change in its scratch worktree: demo fails with the patch, passes without,
# the package's existing tests pass with the patch; then copies patch/demo/meta to /verif/seeded/<ID>/.
ID=$1; S=${2:-/tmp/seed/$ID}; W=$S/w; O=$S/out_$ID
export GOFLAGS=-mod=mod GOPROXY=off
PKG=$(head -3 $O/demo_test.go | grep -oE '[a-z0-9_/]+/[a-z0-9_/]+|`[^`]+`' | head -1 | tr -d '`')
[ -z "$PKG" ] && PKG=$(head -1 $O/demo_test.go | sed -E "s#^// *##; s# .*##")
[ -n "$3" ] && PKG=$3
echo "seed $ID package dir: $PKG"
cd $W || exit 2
git checkout -q -- . ; git apply $O/patch.diff || { echo "patch does not apply"; exit 2; }
go build ./... || { echo "BUILD FAILS with patch"; exit 1; }
cp $O/demo_test.go $W/$PKG/zz_demo_test.go
timeout 900 go test -count=1 -run "$(grep -oE '^func (Test[A-Za-z0-9_]+)' $O/demo_test.go | awk '{print $2}' | paste -sd'|')" ./$PKG/ > $S/seed_$ID.with.log 2>&1; RW=$?
git apply -R $O/patch.diff   # (git stash is shared between worktrees of one repository: never use it here)
timeout 900 go test -count=1 -run "$(grep -oE '^func (Test[A-Za-z0-9_]+)' $O/demo_test.go | awk '{print $2}' | paste -sd'|')" ./$PKG/ > $S/seed_$ID.without.log 2>&1; RWO=$?
git apply $O/patch.diff
rm -f $W/$PKG/zz_demo_test.go
timeout 1500 go test -count=1 ${PKGRUN:+-run "$PKGRUN"} ./$PKG/ > $S/seed_$ID.pkg.log 2>&1; RP=$?
echo "demo with patch exit=$RW (want !=0), without exit=$RWO (want 0), package tests with patch exit=$RP (want 0)"
if [ $RW -ne 0 ] && [ $RWO -eq 0 ] && [ $RP -eq 0 ]; then
  D=${SEED_NAME:-$ID}; mkdir -p /verif/seeded/$D && cp $O/patch.diff $O/demo_test.go $O/meta.json /verif/seeded/$D/ && echo CONFIRMED
else
  echo NOT-CONFIRMED; for f in with without pkg; do echo "-- $f"; tail -n 5 $S/seed_$ID.$f.log; done
fi
