#!/bin/bash
# usage: seed_run.sh <seed-name> <property> [tier] — applies /verif/seeded/<seed-name>/patch.diff to /repo, runs the check, undoes the patch.
N=$1; P=$2; T=${3:-quick}
cd /repo || exit 2
[ -z "$(git status --porcelain)" ] || { echo "/repo not clean"; exit 2; }
git apply /verif/seeded/$N/patch.diff || exit 2
cd /verif
cp evidence/$P.json /tmp/evidence_$P.bak 2>/dev/null
timeout 3000 bin/gosym check $P --tier $T --workers ${WORKERS:-6} 2>&1 | grep -E "^(RESULT|VIOLATION|INCONCLUSIVE|KNOWN|  harness)" | cut -c1-260
cp /tmp/evidence_$P.bak evidence/$P.json 2>/dev/null
git -C /repo checkout -- . 
