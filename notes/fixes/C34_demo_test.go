// Native demonstration of the C34 defect on the unrepaired tree (float64-based FormatBalance/ParseBalance).
// Run: cp C34_demo_test.go <repo>/utils/zz_c34_demo_test.go && cd <repo> && go test -count=1 -run TestC34Demo ./utils/
// On the unrepaired tree the three sub-tests fail; with notes/fixes/C34.patch applied they pass.
// (The same vectors are part of the check itself: harness `vectors` of C34, harness/utils/c34_balance.go.)
package utils

import (
	"math"
	"testing"
)

func TestC34Demo(t *testing.T) {
	for _, b := range []uint64{1_016_651, 1<<53 + 1, math.MaxUint64} {
		s := FormatBalance(b)
		got, err := ParseBalance(s)
		if err != nil || got != b {
			t.Errorf("balance %d formats as %q and parses back as %d (err=%v)", b, s, got, err)
		}
	}
}
