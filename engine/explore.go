package main

import (
	"fmt"
	"os"
	"math/big"
	"runtime"
	"sort"
	"strings"
	"sync"
	"time"
)

// Choice is one decision on a path.
type Choice struct {
	Kind     string
	Feasible []int // feasible option indices (in exploration order)
	Pos      int   // index into Feasible currently taken
}

type pathEnd struct {
	kind string // ok fail panic unwind unsupported infeasible deadlock
	msg  string
}

type nondetRec struct {
	tag string
	seq int
	t   *Term
}

type obsRec struct {
	tag string
	v   Int
}

// Vector is a concrete replay vector (same JSON shape as the native support file reads).
type Vector struct {
	Entry   string              `json:"entry"`
	Tier    int                 `json:"tier"`
	Vals    map[string][]string `json:"vals"`
	Choices map[string][]int    `json:"choices"`
	Expect  string              `json:"expect"`
	Obs     []string            `json:"obs"`
}

type Finding struct {
	Kind     string // fail panic deadlock unsupported unwind
	Label    string
	Msg      string
	Choices  string
	HasModel bool
	Vec      *Vector
	Level    int // preemption level at which it was found
}

// Shared is the state shared by all exploration workers of one harness run.
type Shared struct {
	mu       sync.Mutex
	cond     *sync.Cond
	queue    [][]int
	active   int
	stop     bool
	nworkers int

	stats     map[string]int
	reach     map[string]bool
	findings  []Finding
	findKeys  map[string]int
	okSamples []*Vector
	paths     int
	okLeaves  int
	decisions int
	maxDepth  int
	maxPaths  int
	stopFail  bool
	funcsRun  map[string]int
	params    map[string]int
	chooseMax map[string]int
	unknownAt []string
	forkSites map[string]int
	deadline  time.Time
	timedOut  bool

	queries, nsat, nunsat, nunk int
	xchecked, xdisagree         int
	solverTime                  time.Duration
	progress                    bool
	lastProgress                time.Time
}

// brStats (GOSYM_BRSTATS=1): count, per branch site / choice tag, the decisions with more than one feasible side.
var brStats = os.Getenv("GOSYM_BRSTATS") != ""

func NewShared(nworkers int) *Shared {
	s := &Shared{stats: map[string]int{}, reach: map[string]bool{}, findKeys: map[string]int{}, maxPaths: 1 << 40,
		nworkers: nworkers, funcsRun: map[string]int{}, params: map[string]int{}, chooseMax: map[string]int{}}
	s.cond = sync.NewCond(&s.mu)
	return s
}

// getTask blocks until a prefix is available or the exploration is complete.
func (s *Shared) getTask() ([]int, bool) {
	s.mu.Lock()
	defer s.mu.Unlock()
	for {
		if s.stop {
			return nil, false
		}
		if len(s.queue) > 0 {
			t := s.queue[len(s.queue)-1]
			s.queue = s.queue[:len(s.queue)-1]
			s.active++
			return t, true
		}
		if s.active == 0 {
			s.cond.Broadcast()
			return nil, false
		}
		s.cond.Wait()
	}
}

func (s *Shared) taskDone() {
	s.mu.Lock()
	s.active--
	if s.active == 0 && len(s.queue) == 0 {
		s.cond.Broadcast()
	}
	s.mu.Unlock()
}

func (s *Shared) hungry() bool {
	s.mu.Lock()
	defer s.mu.Unlock()
	return len(s.queue) < 2*s.nworkers
}

func (s *Shared) push(prefixes [][]int) {
	s.mu.Lock()
	s.queue = append(s.queue, prefixes...)
	s.cond.Broadcast()
	s.mu.Unlock()
}

type Explorer struct {
	ts     *TermStore
	sol    *Solver
	xsol   *Solver // optional second solver (cross-check of unsat verdicts)
	sh     *Shared
	vec    []Choice // current vector
	floor  int      // vec[:floor] is the forced prefix of the current task
	depth  int      // position while executing
	pc     []*Term
	nondet []nondetRec
	obs    []obsRec
	seq    map[string]int
	level  int
	entry  string
	tier   int
	okSeen int
	sampleOK bool
	pcHash   uint64
	brSite   string
	fitCache map[[2]uint64]bool
	assumeCache map[[2]uint64]string
}

func NewExplorer(ts *TermStore, sol *Solver, sh *Shared) *Explorer {
	return &Explorer{ts: ts, sol: sol, sh: sh}
}

func (e *Explorer) fresh(tag string, w int) *Term {
	n := e.seq[tag]
	e.seq[tag] = n + 1
	name := fmt.Sprintf("%s_%d", sanitize(tag), n)
	v := e.ts.Var(name, w)
	e.nondet = append(e.nondet, nondetRec{tag, n, v})
	return v
}

func sanitize(s string) string {
	var sb strings.Builder
	for _, c := range s {
		if c >= 'a' && c <= 'z' || c >= 'A' && c <= 'Z' || c >= '0' && c <= '9' || c == '_' {
			sb.WriteRune(c)
		} else {
			sb.WriteByte('_')
		}
	}
	return "n_" + sb.String()
}

func (e *Explorer) assume(c *Term) {
	e.pc = append(e.pc, c)
	e.pcHash = (e.pcHash ^ uint64(c.id+1)) * 1099511628211
	e.sol.Assert(c)
}

// implied reports whether the current path condition implies c (one solver query, cached per (pc, c)).
// "unknown" counts as not implied.
func (e *Explorer) implied(c *Term) bool {
	if c.op == "true" {
		return true
	}
	if c.op == "false" {
		return false
	}
	key := [2]uint64{e.pcHash, uint64(c.id)}
	if r, ok := e.fitCache[key]; ok {
		return r
	}
	if e.fitCache == nil {
		e.fitCache = map[[2]uint64]bool{}
	}
	r := e.sol.CheckWith(e.ts.Op("not", 0, c)) == "unsat"
	e.fitCache[key] = r
	return r
}

// assumeCheck is checkWith for verifAssume, cached per (path condition, term): the stateless search re-executes the
// common prefix of sibling paths, and every re-execution meets the same assumptions under the same path condition.
func (e *Explorer) assumeCheck(c *Term) string {
	key := [2]uint64{e.pcHash, uint64(c.id)}
	if r, ok := e.assumeCache[key]; ok {
		return r
	}
	r := e.checkWith(c)
	if r != "unknown" {
		if e.assumeCache == nil {
			e.assumeCache = map[[2]uint64]string{}
		}
		e.assumeCache[key] = r
	}
	return r
}

// checkWith asks whether pc ∧ c is satisfiable; unsat verdicts are optionally cross-checked.
func (e *Explorer) checkWith(c *Term) string {
	if !e.sh.deadline.IsZero() && time.Now().After(e.sh.deadline) {
		e.sh.mu.Lock()
		e.sh.stop = true
		e.sh.timedOut = true
		e.sh.cond.Broadcast()
		e.sh.mu.Unlock()
		panic(pathEnd{"infeasible", "time budget exhausted"})
	}
	t0 := time.Now()
	r := e.sol.CheckWith(c)
	if d := time.Since(t0); d > time.Second && os.Getenv("GOSYM_SLOW") != "" {
		fmt.Fprintf(os.Stderr, "SLOW %.1fs %s depth=%d path=%s\n", d.Seconds(), r, e.depth, e.choiceString())
	}
	if r == "unsat" && e.xsol != nil {
		e.xsol.pc = append(e.xsol.pc[:0], e.pc...)
		r2 := e.xsol.fresh(c)
		e.sh.mu.Lock()
		e.sh.xchecked++
		if r2 == "sat" {
			e.sh.xdisagree++
		}
		e.sh.mu.Unlock()
		if r2 == "sat" {
			return "unknown"
		}
	}
	return r
}

// take returns the option for the next decision. cons(i) gives the constraint for option i (nil = unconstrained).
func (e *Explorer) take(kind string, n int, cons func(i int) *Term) int {
	if e.depth < len(e.vec) {
		ch := e.vec[e.depth]
		if ch.Kind == "?" {
			e.vec[e.depth].Kind = kind
		}
		e.depth++
		opt := ch.Feasible[ch.Pos]
		if cons != nil {
			if c := cons(opt); c != nil {
				e.assume(c)
			}
		}
		return opt
	}
	// new decision
	var feas []int
	for i := 0; i < n; i++ {
		if cons == nil {
			feas = append(feas, i)
			continue
		}
		c := cons(i)
		if c == nil || c.op == "true" {
			feas = append(feas, i)
			continue
		}
		if c.op == "false" {
			continue
		}
		r := e.checkWith(c)
		if r != "unsat" {
			feas = append(feas, i)
			if r == "unknown" {
				e.sh.mu.Lock()
				e.sh.stats["unknown-branch"]++
				if len(e.sh.unknownAt) < 8 {
					e.sh.unknownAt = append(e.sh.unknownAt, kind)
				}
				e.sh.mu.Unlock()
			}
		}
	}
	return e.commit(kind, feas, cons)
}

// commit records a new decision with the given feasible options and takes the first one.
func (e *Explorer) commit(kind string, feas []int, cons func(i int) *Term) int {
	if len(feas) == 0 {
		panic(pathEnd{"infeasible", kind})
	}
	e.sh.mu.Lock()
	e.sh.decisions++
	if brStats && len(feas) > 1 {
		if e.sh.forkSites == nil {
			e.sh.forkSites = map[string]int{}
		}
		e.sh.forkSites[kind]++
	}
	e.sh.mu.Unlock()
	// work sharing: hand the siblings to other workers while the queue is short
	if len(feas) > 1 && len(e.vec) < 48 && e.sh.nworkers > 1 && e.sh.hungry() {
		base := make([]int, len(e.vec))
		for i, c := range e.vec {
			base[i] = c.Feasible[c.Pos]
		}
		var sibs [][]int
		for _, o := range feas[1:] {
			p := make([]int, len(base)+1)
			copy(p, base)
			p[len(base)] = o
			sibs = append(sibs, p)
		}
		e.sh.push(sibs)
		feas = feas[:1]
	}
	e.vec = append(e.vec, Choice{Kind: kind, Feasible: feas})
	e.depth++
	opt := feas[0]
	if cons != nil {
		if c := cons(opt); c != nil {
			e.assume(c)
		}
	}
	return opt
}

// branch decides a symbolic boolean.
func (e *Explorer) branch(c *Term) bool {
	if c.op == "true" {
		return true
	}
	if c.op == "false" {
		return false
	}
	kind := "br"
	if e.brSite != "" {
		kind = "br@" + e.brSite
		e.brSite = ""
	}
	opt := e.take(kind, 2, func(i int) *Term {
		if i == 0 {
			return c
		}
		return e.ts.Op("not", 0, c)
	})
	return opt == 0
}

// advance moves to the next unexplored path of the current task; false when the subtree is done.
func (e *Explorer) advance() bool {
	for len(e.vec) > e.floor {
		last := &e.vec[len(e.vec)-1]
		if last.Pos+1 < len(last.Feasible) {
			last.Pos++
			return true
		}
		e.vec = e.vec[:len(e.vec)-1]
	}
	return false
}

type Model map[string]*big.Int

// vector builds the replay vector of the current path from a model (nil model: zeros).
func (e *Explorer) vector(m Model, expect string) *Vector {
	v := &Vector{Entry: e.entry, Tier: e.tier, Vals: map[string][]string{}, Choices: map[string][]int{}, Expect: expect}
	for _, nd := range e.nondet {
		l := v.Vals[nd.tag]
		for len(l) <= nd.seq {
			l = append(l, "0")
		}
		if m != nil {
			if x, ok := m[nd.t.name]; ok {
				if nd.t.w > 0 && nd.t.w <= 64 && x.Sign() >= 0 {
					l[nd.seq] = x.String()
				} else if nd.t.w == 0 {
					l[nd.seq] = x.String()
				} else {
					// Int-sorted variable: may be negative; reduce to 64-bit two's complement decimal
					y := new(big.Int).And(x, new(big.Int).SetUint64(^uint64(0)))
					if x.Sign() < 0 {
						y = new(big.Int).Add(x, new(big.Int).Lsh(big.NewInt(1), 64))
					}
					l[nd.seq] = y.String()
				}
			}
		}
		v.Vals[nd.tag] = l
	}
	for _, c := range e.vec[:min(e.depth, len(e.vec))] {
		if strings.HasPrefix(c.Kind, "choose:") {
			tag := c.Kind[len("choose:"):]
			v.Choices[tag] = append(v.Choices[tag], c.Feasible[c.Pos])
		}
	}
	return v
}

// modelNow returns a model of the current path condition (plus observed terms) or nil.
func (e *Explorer) modelNow() (Model, []string, string) {
	if r := e.sol.Check(); r != "sat" {
		return nil, nil, r
	}
	var ts []*Term
	for _, nd := range e.nondet {
		ts = append(ts, nd.t)
	}
	var obsT []*Term
	for _, o := range e.obs {
		if o.v.S != nil {
			e.sol.define(o.v.S)
			obsT = append(obsT, o.v.S)
		}
	}
	vals := e.sol.Values(append(append([]*Term{}, ts...), obsT...))
	var obs []string
	for _, o := range e.obs {
		if o.v.S == nil {
			obs = append(obs, fmt.Sprintf("%s=%d", o.tag, o.v.C))
		} else if x, ok := vals[o.v.S.ref()]; ok {
			y := new(big.Int).And(x, new(big.Int).SetUint64(^uint64(0)))
			obs = append(obs, fmt.Sprintf("%s=%s", o.tag, y.String()))
		}
	}
	sort.Strings(obs)
	return vals, obs, "sat"
}

func (e *Explorer) choiceString() string {
	var sb strings.Builder
	for _, c := range e.vec[:min(e.depth, len(e.vec))] {
		fmt.Fprintf(&sb, "%s:%d ", c.Kind, c.Feasible[c.Pos])
	}
	return sb.String()
}

// runTask explores the subtree below prefix.
func (e *Explorer) runTask(prefix []int, runPath func()) {
	e.vec = e.vec[:0]
	for _, o := range prefix {
		e.vec = append(e.vec, Choice{Kind: "?", Feasible: []int{o}})
	}
	e.floor = len(prefix)
	first := true
	for {
		e.depth = 0
		e.pcHash = 14695981039346656037
		e.pc = e.pc[:0]
		e.nondet = e.nondet[:0]
		e.obs = e.obs[:0]
		e.seq = map[string]int{}
		e.sol.BeginPath()
		kindFix := first && len(prefix) > 0
		first = false
		end := func() (pe pathEnd) {
			defer func() {
				if r := recover(); r != nil {
					switch x := r.(type) {
					case pathEnd:
						pe = x
					case unsupportedErr:
						pe = pathEnd{"unsupported", x.what}
					case goPanic:
						pe = pathEnd{"panic", fmt.Sprint(x.v)}
					case killed:
						pe = pathEnd{"unsupported", "engine: main goroutine killed"}
					default:
						pe = pathEnd{"unsupported", "engine-internal: " + firstLine(fmt.Sprint(r)) + " @ " + engineSite()}
					}
				}
			}()
			runPath()
			return pathEnd{"ok", ""}
		}()
		_ = kindFix
		e.leaf(end)
		e.sol.EndPath()
		e.sh.mu.Lock()
		e.sh.paths++
		if e.depth > e.sh.maxDepth {
			e.sh.maxDepth = e.depth
		}
		stop := e.sh.stop
		if e.sh.paths >= e.sh.maxPaths {
			e.sh.stop = true
			e.sh.stats["cap-maxpaths"] = 1
			stop = true
			e.sh.cond.Broadcast()
		}
		if !e.sh.deadline.IsZero() && time.Now().After(e.sh.deadline) {
			e.sh.stop = true
			e.sh.timedOut = true
			stop = true
			e.sh.cond.Broadcast()
		}
		if e.sh.progress && time.Since(e.sh.lastProgress) > 10*time.Second {
			e.sh.lastProgress = time.Now()
			fmt.Printf("  .. paths=%d queue=%d findings=%d\n", e.sh.paths, len(e.sh.queue), len(e.sh.findings))
		}
		e.sh.mu.Unlock()
		if stop || !e.advance() {
			return
		}
	}
}

// leaf classifies the end of one path and records findings / samples.
func (e *Explorer) leaf(end pathEnd) {
	sh := e.sh
	switch end.kind {
	case "ok":
		e.okSeen++
		take := false
		sh.mu.Lock()
		sh.stats["ok"]++
		sh.okLeaves++
		n := sh.okLeaves
		if e.sampleOK && (n&(n-1) == 0 || n%997 == 0) && len(sh.okSamples) < 256 {
			take = true
		}
		sh.mu.Unlock()
		if take {
			if m, obs, st := e.modelNow(); st == "sat" {
				v := e.vector(m, "ok")
				v.Obs = obs
				sh.mu.Lock()
				sh.okSamples = append(sh.okSamples, v)
				sh.mu.Unlock()
			}
		}
		return
	case "infeasible":
		sh.mu.Lock()
		sh.stats["infeasible"]++
		sh.mu.Unlock()
		return
	}
	f := Finding{Kind: end.kind, Label: end.msg, Msg: end.msg, Choices: e.choiceString(), Level: e.level}
	key := end.kind + "|" + end.msg
	if end.kind == "panic" || end.kind == "deadlock" {
		f.Label = end.kind
	}
	sh.mu.Lock()
	sh.stats[end.kind]++
	cnt := sh.findKeys[key]
	sh.findKeys[key] = cnt + 1
	sh.mu.Unlock()
	if cnt >= 3 { // keep at most 3 witnesses per distinct label
		return
	}
	if end.kind == "fail" || end.kind == "panic" || end.kind == "deadlock" {
		m, _, st := e.modelNow()
		switch st {
		case "sat":
			f.HasModel = true
			f.Vec = e.vector(m, end.kind+":"+end.msg)
		case "unsat":
			// the path was only kept alive by an `unknown` feasibility answer
			sh.mu.Lock()
			sh.stats[end.kind]--
			sh.stats["infeasible-late"]++
			sh.findKeys[key]--
			sh.mu.Unlock()
			return
		default:
			f.Vec = e.vector(nil, end.kind+":"+end.msg)
		}
	}
	sh.mu.Lock()
	sh.findings = append(sh.findings, f)
	if sh.stopFail {
		sh.stop = true
		sh.cond.Broadcast()
	}
	sh.mu.Unlock()
}

func firstLine(s string) string {
	if i := strings.IndexByte(s, '\n'); i >= 0 {
		s = s[:i]
	}
	if len(s) > 200 {
		s = s[:200]
	}
	return s
}

// engineSite names the interpreter function in which an internal panic was raised.
func engineSite() string {
	pcs := make([]uintptr, 32)
	n := runtime.Callers(3, pcs)
	fr := runtime.CallersFrames(pcs[:n])
	var out []string
	for {
		f, more := fr.Next()
		if strings.HasPrefix(f.Function, "main.") && !strings.Contains(f.Function, "func") {
			out = append(out, fmt.Sprintf("%s:%d", strings.TrimPrefix(f.Function, "main."), f.Line))
			if len(out) >= 3 {
				break
			}
		}
		if !more {
			break
		}
	}
	return strings.Join(out, "<")
}
