package main

func init() {
	register(PropSpec{ID: "C22", Harnesses: []HarnessSpec{
		{Name: "backfill", Pkg: "internal/validitywindow", Files: []string{"validitywindow/c22_backfill.go"}, Entry: "VerifC22", Sched: true, Preempt: [2]int{0, 1},
			Reach:       []string{"backfill-done", "tracked", "target-updated"},
			Stubs:       []string{"the peer is a harness NetworkBlockFetcher: honest answers are produced by the real BlockFetcherHandler.fetchBlocks over the real chain (at most 2 blocks per answer); misbehaviour = error / unparsable bytes / forged block with the right parent / ancestors out of order / real block followed by a forged one", "block parser, block store, chain index and node sampler are harness implementations; block IDs are the SHA-256 of the block bytes", "time.Sleep is a scheduling point; timeouts never fire (context model)"},
			Assumptions: []string{"the genesis block is older than the validity window (hypersdk's genesis header timestamp lies years in the past); block timestamps increase"},
			Outside:     []string{"chains other than 6 blocks 10 ms apart with windows {15, 25, 35 (, 45)} ms; more than badAnswers misbehaving answers; more than one block accepted during backfill", "real p2p transport and timeouts", "schedules beyond the preemption bound"}},
		{Name: "cancel", Pkg: "internal/validitywindow", Files: []string{"validitywindow/c22_backfill.go"}, Entry: "VerifC22Cancel", Sched: true, Preempt: [2]int{2, 3},
			Reach:       []string{"cancelled-incomplete"},
			Stubs:       []string{"the peer is a harness NetworkBlockFetcher: honest answers are produced by the real BlockFetcherHandler.fetchBlocks over the real chain (at most 2 blocks per answer); misbehaviour = error / unparsable bytes / forged block with the right parent / ancestors out of order / real block followed by a forged one", "block parser, block store, chain index and node sampler are harness implementations; block IDs are the SHA-256 of the block bytes", "time.Sleep is a scheduling point; timeouts never fire (context model)"},
			Assumptions: []string{"the genesis block is older than the validity window (hypersdk's genesis header timestamp lies years in the past); block timestamps increase"},
			Outside:     []string{"chains other than 6 blocks 10 ms apart with windows {15, 25, 35 (, 45)} ms; more than badAnswers misbehaving answers; more than one block accepted during backfill", "real p2p transport and timeouts", "schedules beyond the preemption bound"}},
	}})
}
