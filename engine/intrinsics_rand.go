package main

import "golang.org/x/tools/go/ssa"

// math/rand top-level generators: a fresh unconstrained value per call (natively a real random number; harnesses must
// make sure verdicts do not depend on it, e.g. chainindex.New only uses it modulo BlockCompactionFrequency).
func init() {
	extraIntrinsics = append(extraIntrinsics, func(in *Interp, fn *ssa.Function, name string, args []V) (V, bool) {
		switch name {
		case "math/rand.Uint64":
			return in.freshInt("math/rand.Uint64", 64, false), true
		}
		return nil, false
	})
}
