package main

func init() {
	register(PropSpec{ID: "C05", Harnesses: []HarnessSpec{
		{Name: "lattice", Pkg: "state", Files: []string{"state/c05_lattice.go"}, Entry: "VerifC05Lattice", Reach: []string{"nonzero-require"}},
		{Name: "scope", Pkg: "chain", Files: []string{"chain/common.go", "chain/c05_scope.go"}, Entry: "VerifC05Scope",
			Reach:   []string{"read-ok", "read-denied", "created", "write-denied", "removed"},
			Stubs:   []string{"actions/auth/balance handler are harness types; the declared permission bytes are symbolic (all 256 values each)"},
			Outside: []string{"more than `ops` access attempts per transaction", "key universe {A (declared by two actions), A's size-suffix twin (undeclared), B, sponsor balance key}", "values longer than one byte (C40)"}},
		{Name: "tx", Pkg: "chain", Files: []string{"chain/common.go", "chain/c03_atomic.go"}, Entry: "VerifC05Tx",
			Reach:   []string{"undeclared-access", "reverted", "all-succeeded"},
			Stubs:   []string{"scripted harness actions (see C03 harness atomic); unit prices and units concrete"},
			Outside: []string{"more than `maxActions` actions / `maxOpsPerAction` accesses per action"}},
	}})
}
