package main

func init() {
	const tx = "github.com/ava-labs/hypersdk/x/dsmr/dsmrtest.Tx"
	register(PropSpec{ID: "C37", Harnesses: []HarnessSpec{
		{Name: "chain", Pkg: "x/dsmr", Files: []string{"dsmr/c36_storage.go", "dsmr/c37_verify.go"}, Entry: "VerifC37Chain",
			Reach: []string{"verified", "rejected", "built", "accepted"},
			Stubs: []string{
				"ChunkCertificate.Verify redirected to `valid` in the engine; natively the real BLS/warp verification runs on certificates really signed by the harness's single validator (c37Sign)",
				"chunk and block encoding (codec.LinearCodec, reflection) redirected in the engine (identity table / no-op); block IDs are harness seeds in both worlds",
				"database = avalanchego memdb from source; chunk verifier = harness verifier accepting every chunk; chain index of the validity window = harness map of verified blocks; logger/tracer opaque",
			},
			Assumptions: []string{
				"a certificate exists only for a chunk whose expiry lay within [last accepted timestamp, last accepted timestamp + validity window] when it was signed (ChunkVerifier.Verify)",
				"every chunk referenced by a block is in the local storage (Accept's remote fetch is C35, not applicable)",
				"0 <= validity window <= 2^40, timestamps <= 2^40",
			},
			Outside: []string{"forks (one chain; the accepted prefix trails the verified tip)", "more than maxSteps steps (create certificate / peer block / build block / accept)",
				"more than `certs` certificates, more than maxCertsPerBlock certificates in a peer block", "blocks referencing certificates unknown to the local node"},
			Redirects: map[string]string{
				"github.com/ava-labs/hypersdk/x/dsmr.newChunk[" + tx + "]":                       "c36NewChunkModel",
				"github.com/ava-labs/hypersdk/x/dsmr.ParseChunk[" + tx + "]":                     "c36ParseChunkModel",
				"(*github.com/ava-labs/hypersdk/x/dsmr.ChunkCertificate).Verify":                 "c37CertVerifyModel",
				"(*github.com/ava-labs/avalanchego/codec/reflectcodec.genericCodec).MarshalInto": "c37MarshalIntoModel",
				"github.com/ava-labs/hypersdk/x/dsmr.c37Sign":                                    "c37SignModel",
			},
		},
	}})
}
