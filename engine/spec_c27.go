package main

func init() {
	files := []string{"genesis/c27_genesis.go"}
	redirects := map[string]string{
		"github.com/ava-labs/hypersdk/genesis.c27BaseView": "c27ModelBase",
		"github.com/ava-labs/hypersdk/genesis.c27KeyCount": "c27ModelKeyCount",
	}
	stubs := []string{
		"state database: the real merkledb over memdb in the native replay; in the engine a map model of a view (GetValue, NewView applying the change set, root = hash of the content: uninterpreted on symbolic bytes) — the oracle only compares the block's root with the root the returned view reports and reads values back, which both worlds answer alike",
		"balance handler = the real state/balance.PrefixBalanceHandler; metadata manager = the real default manager; rules = genesis.Rules with symbolic minimum prices; tracer/logger opaque",
	}
	outside := []string{"more allocations than the bound; more than two distinct allocated addresses (plus one never allocated)", "the MorpheusVM balance handler (other module; same AddBalance logic)", "JSON loading of the genesis file, StateBranchFactor"}
	register(PropSpec{ID: "C27", Harnesses: []HarnessSpec{
		{Name: "genesis", Pkg: "genesis", Files: files, Entry: "VerifC27Genesis", QueryMs: [2]int{120000, 120000}, Reach: []string{"overflow-rejected", "several-allocations"},
			Redirects: redirects, Stubs: stubs, Outside: outside},
		{Name: "many", Pkg: "genesis", Files: files, Entry: "VerifC27Many", QueryMs: [2]int{120000, 120000}, Reach: []string{"several-allocations"},
			Redirects: redirects, Stubs: stubs, Outside: append([]string{"balances of 2^60 and above in this harness (full range: harness genesis)"}, outside...)},
	}})
}
