package main

import (
	"time"

	"golang.org/x/tools/go/ssa"
)

// time.Date with concrete arguments (location taken as UTC) yields a real time.Time value {wall, ext, loc} without
// monotonic reading, and UnixMilli on such a value is computed exactly. The zero Time (the engine's time.Now) keeps the
// built-in model (UnixMilli = 0).
func init() {
	const unixToInternal = 62135596800
	extraIntrinsics = append(extraIntrinsics, func(in *Interp, fn *ssa.Function, name string, args []V) (V, bool) {
		switch name {
		case "time.Date":
			var a [7]int
			for i := 0; i < 7; i++ {
				x, ok := args[i].(Int)
				if !ok || x.S != nil {
					return nil, false
				}
				a[i] = int(signExt(x.C, 64))
			}
			t := time.Date(a[0], time.Month(a[1]), a[2], a[3], a[4], a[5], a[6], time.UTC)
			return Struct{
				Int{W: 64, C: uint64(t.Nanosecond())},
				Int{W: 64, Signed: true, C: uint64(t.Unix() + unixToInternal)},
				Ptr(nil),
			}, true
		case "(time.Time).UnixMilli":
			s, ok := args[0].(Struct)
			if !ok || len(s) != 3 {
				return nil, false
			}
			wall, ok1 := s[0].(Int)
			ext, ok2 := s[1].(Int)
			if !ok1 || !ok2 || wall.S != nil || ext.S != nil || (wall.C == 0 && ext.C == 0) || wall.C>>63 != 0 {
				return nil, false
			}
			sec := signExt(ext.C, 64) - unixToInternal
			ms := sec*1000 + int64(wall.C&(1<<30-1))/1e6
			return in.cInt(uint64(ms), 64, true), true
		}
		return nil, false
	})
}
