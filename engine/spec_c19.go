package main

func init() {
	files := []string{"chainindex/c19_index.go"}
	stubs := []string{
		"database = the real avalanchego memdb (interpreted by the engine, run natively in the replay): a healthy database; no write/read errors are injected",
		"block = harness type {height, symbolic payload byte}; ID = constructive function of the height; parser = inverse of GetBytes",
		"prometheus registry/counter and the logger are opaque; math/rand.Uint64 (compaction offset) is an unconstrained value, only used modulo BlockCompactionFrequency = 1",
		"db.Compact runs in the goroutines the index spawns (memdb: no-op); schedules with preemption bound 0",
	}
	outside := []string{
		"histories longer than `ops` events, height gaps above `maxGap`, windows above `maxWindow`, more than `maxRestarts` restarts per history",
		"two different blocks stored at one height (one accepted chain; SaveHistorical re-saves the same block)",
		"SaveHistorical above the last accepted height or away from the stored run (the syncer only fetches backwards from the oldest stored ancestor of the accepted sync target)",
		"database errors, crashes between batch writes, BlockCompactionFrequency other than 1, heights near 2^64",
	}
	assume := []string{"AcceptedBlockWindow 0 means unlimited retention (chain_index_test 'no accepted window'): nothing is ever out of window and the retention bound does not apply"}
	register(PropSpec{ID: "C19", Harnesses: []HarnessSpec{
		{Name: "consecutive", Pkg: "chainindex", Files: files, Entry: "VerifC19Consecutive", Sched: true, Reach: []string{"restart", "in-window-checked"}, Stubs: stubs, Outside: outside, Assumptions: assume},
		{Name: "gap", Pkg: "chainindex", Files: files, Entry: "VerifC19Gap", Sched: true, Reach: []string{"restart", "gap", "in-window-checked"}, Stubs: stubs, Outside: outside, Assumptions: assume},
		{Name: "historical", Pkg: "chainindex", Files: files, Entry: "VerifC19Historical", Sched: true, Reach: []string{"restart", "gap", "historical", "in-window-checked"}, Stubs: stubs, Outside: outside, Assumptions: assume},
	}})
}
