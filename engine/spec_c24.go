package main

func init() {
	register(PropSpec{ID: "C24", Harnesses: []HarnessSpec{
		{Name: "fetcher", Pkg: "internal/fetcher", Files: []string{"fetcher/c24_fetcher.go"}, Entry: "VerifC24", Sched: true, Preempt: [2]int{1, 2},
			Reach:       []string{"get-ok", "read-error-reported"},
			Assumptions: []string{"Fetch is called from one goroutine in block order and Get(txID) from another goroutine after that transaction's Fetch returned (the call pattern of Processor.executeTxs)", "a transaction ID that occurs twice denotes the same transaction, hence the same key set", "goroutines switch only at synchronisation operations: sound for data-race-free code"},
			Outside:     []string{"the chain metadata keys (read by Processor outside the fetcher)", "more transactions/keys/fetch workers than the stated bounds", "schedules beyond the preemption bound"}},
		{Name: "backlog", Pkg: "internal/fetcher", Files: []string{"fetcher/c24_fetcher.go"}, Entry: "VerifC24Backlog", Sched: true, Preempt: [2]int{1, 2},
			Reach:       []string{"all-keys-delivered", "read-error-reported"},
			Assumptions: []string{"as harness fetcher"},
			Outside:     []string{"more than maxKeys keys per transaction; more than one transaction in this harness"}},
	}})
}
