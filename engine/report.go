package main

import (
	"bufio"
	"encoding/json"
	"fmt"
	"os"
	"os/exec"
	"path/filepath"
	"regexp"
	"sort"
	"strconv"
	"strings"
	"time"
)

// ---- KNOWN_FINDINGS ----

type knownFinding struct {
	prop, label, desc string
}

func loadKnown() []knownFinding {
	var out []knownFinding
	f, err := os.Open(filepath.Join(verifRoot, "KNOWN_FINDINGS"))
	if err != nil {
		return nil
	}
	defer f.Close()
	sc := bufio.NewScanner(f)
	re := regexp.MustCompile(`^known:\s+property=(\S+)\s+label=(\S+)\s*(.*)$`)
	for sc.Scan() {
		m := re.FindStringSubmatch(strings.TrimSpace(sc.Text()))
		if m != nil {
			out = append(out, knownFinding{m[1], m[2], m[3]})
		}
	}
	return out
}

// ---- report ----

type harnessReport struct {
	Name          string         `json:"harness"`
	Entry         string         `json:"entry"`
	Package       string         `json:"package"`
	Encoding      string         `json:"encoding"`
	Paths         int            `json:"paths"`
	Leaves        map[string]int `json:"leaves"`
	Decisions     int            `json:"decisions"`
	MaxDepth      int            `json:"max_depth"`
	PreemptLevels []int          `json:"preemption_levels,omitempty"`
	Queries       map[string]int `json:"queries"`
	XChecked      int            `json:"second_solver_rechecked_unsat"`
	XDisagree     int            `json:"second_solver_disagreements"`
	SolverS       float64        `json:"solver_s"`
	LoadS         float64        `json:"load_s"`
	ExploreS      float64        `json:"explore_s"`
	Bounds        map[string]int `json:"bounds"`
	ChoiceArity   map[string]int `json:"choice_arity"`
	Reach         []string       `json:"vacuity_markers_reached"`
	ReachMissing  []string       `json:"vacuity_markers_missing,omitempty"`
	Functions     []string       `json:"functions_encoded"`
	NFunctions    int            `json:"functions_encoded_count"`
	Stubs         []string       `json:"stubs,omitempty"`
	Outside       []string       `json:"outside,omitempty"`
	NativeOK      int            `json:"native_paths_agreeing"`
	NativeTried   int            `json:"native_paths_tried"`
	Inconclusive  []string       `json:"inconclusive,omitempty"`
}

type Report struct {
	prop   *PropSpec
	tier   int
	t0     time.Time
	known  []knownFinding
	hreps  []*harnessReport
	byName map[string]*harnessReport

	inconclusive []string
	violations   []string // replay paths
	knownHit     map[string]string
	samples      []any
	states       int
	transitions  int
	validated    int
	assumptions  []string
	obligations  int
	discharged   int
}

func newReport(p *PropSpec, tier int) *Report {
	return &Report{prop: p, tier: tier, t0: time.Now(), known: loadKnown(), byName: map[string]*harnessReport{}, knownHit: map[string]string{}}
}

func (r *Report) addInconclusive(h, reason string) {
	msg := h + ": " + reason
	r.inconclusive = append(r.inconclusive, msg)
	fmt.Printf("INCONCLUSIVE property=%s harness=%s reason=%s\n", r.prop.ID, h, reason)
}

func (r *Report) isKnown(label string) (knownFinding, bool) {
	for _, k := range r.known {
		if k.prop == r.prop.ID && k.label == label {
			return k, true
		}
	}
	return knownFinding{}, false
}

func (r *Report) addHarness(res *HarnessResult) {
	hs := res.Spec
	hr := &harnessReport{Name: hs.Name, Entry: hs.Entry, Package: hs.Pkg, Encoding: "BV", LoadS: res.LoadS, ExploreS: res.ExploreS,
		Stubs: append([]string{}, hs.Stubs...), Outside: hs.Outside}
	for from, to := range hs.Redirects {
		hr.Stubs = append(hr.Stubs, "redirect (engine only; the native replay runs the real function): "+from+" => harness model "+to)
	}
	sort.Strings(hr.Stubs)
	if hs.IntMode {
		hr.Encoding = "INT (mathematical integers with explicit mod 2^w), non-incremental queries"
	}
	r.hreps = append(r.hreps, hr)
	r.byName[hs.Name] = hr
	if res.Err != "" {
		r.addInconclusive(hs.Name, res.Err)
		return
	}
	sh := res.Sh
	hr.Paths = sh.paths
	hr.Leaves = sh.stats
	if brStats {
		type kv struct {
			k string
			n int
		}
		var l []kv
		for k, n := range sh.forkSites {
			l = append(l, kv{k, n})
		}
		sort.Slice(l, func(i, j int) bool { return l[i].n > l[j].n })
		for _, e := range l {
			fmt.Fprintf(os.Stderr, "FORKS %7d %s\n", e.n, e.k)
		}
	}
	hr.Decisions = sh.decisions
	hr.MaxDepth = sh.maxDepth
	if hs.Sched {
		hr.PreemptLevels = res.Levels
	}
	hr.Queries = map[string]int{"total": sh.queries, "sat": sh.nsat, "unsat": sh.nunsat, "unknown": sh.nunk}
	hr.XChecked, hr.XDisagree = sh.xchecked, sh.xdisagree
	hr.SolverS = sh.solverTime.Seconds()
	hr.Bounds = sh.params
	hr.ChoiceArity = sh.chooseMax
	for k := range sh.reach {
		hr.Reach = append(hr.Reach, k)
	}
	sort.Strings(hr.Reach)
	for _, m := range append([]string{"end"}, hs.Reach...) {
		if !sh.reach[m] {
			hr.ReachMissing = append(hr.ReachMissing, m)
		}
	}
	for k := range sh.funcsRun {
		if !strings.Contains(k, "verif") {
			hr.Functions = append(hr.Functions, k)
		}
	}
	sort.Strings(hr.Functions)
	hr.NFunctions = len(hr.Functions)
	if len(hr.Functions) > 60 {
		// keep the repo's own functions first
		var own, other []string
		for _, f := range hr.Functions {
			if strings.Contains(f, "hypersdk") {
				own = append(own, f)
			} else {
				other = append(other, f)
			}
		}
		hr.Functions = append(own, other...)
		if len(hr.Functions) > 120 {
			hr.Functions = hr.Functions[:120]
		}
	}
	r.states += sh.paths
	r.transitions += sh.decisions
	r.assumptions = append(r.assumptions, hs.Assumptions...)

	inc := func(reason string) {
		hr.Inconclusive = append(hr.Inconclusive, reason)
		r.addInconclusive(hs.Name, reason)
	}
	if sh.timedOut {
		inc("time budget exhausted before the path space was covered (bound not completed)")
	}
	if sh.stats["cap-maxpaths"] > 0 {
		inc("path cap reached before the path space was covered (bound not completed)")
	}
	if n := sh.stats["unknown-branch"]; n > 0 {
		inc(fmt.Sprintf("%d branch feasibility queries answered unknown/timeout (sides kept, not discharged) at %v", n, sh.unknownAt))
	}
	if sh.xdisagree > 0 {
		inc(fmt.Sprintf("%d sat/unsat disagreements between z3 4.8.12 and z3 5.1.0", sh.xdisagree))
	}
	if len(hr.ReachMissing) > 0 && !sh.timedOut && sh.stats["cap-maxpaths"] == 0 {
		inc(fmt.Sprintf("VACUOUS: markers never reached: %v", hr.ReachMissing))
	}
	seen := map[string]bool{}
	for _, f := range sh.findings {
		if f.Kind == "unsupported" || f.Kind == "unwind" {
			k := f.Kind + ":" + f.Msg
			if !seen[k] {
				seen[k] = true
				inc(f.Kind + ": " + f.Msg)
			}
		}
	}
	// obligations: every explored path must end OK or be pruned; discharged = those that did
	r.obligations += sh.paths
	r.discharged += sh.stats["ok"] + sh.stats["infeasible"] + sh.stats["infeasible-late"]
}

func (r *Report) skipNative(results []*HarnessResult) {
	for _, res := range results {
		if res.Sh == nil {
			continue
		}
		for _, f := range res.Sh.findings {
			if f.Kind == "fail" || f.Kind == "panic" || f.Kind == "deadlock" {
				fmt.Printf("FINDING (not replayed) harness=%s kind=%s label=%s choices=%s vec=%s\n", res.Spec.Name, f.Kind, f.Msg, f.Choices, vecString(f.Vec))
				r.addInconclusive(res.Spec.Name, "finding not replayed natively (--nonative): "+f.Kind+" "+f.Msg)
			}
		}
	}
}

func vecString(v *Vector) string {
	if v == nil {
		return "-"
	}
	b, _ := json.Marshal(map[string]any{"vals": v.Vals, "choices": v.Choices})
	return string(b)
}

type nativeResult struct {
	kind, label, obs string
	div              int
	found            bool
}

var resRe = regexp.MustCompile(`^VERIF-RESULT (\d+) (\S+) label="((?:[^"\\]|\\.)*)" div=(\d+) obs=(.*)$`)

func runNative(bin, cwd string, vecs []*Vector, watchdogMs int, timeout time.Duration) ([]nativeResult, string) {
	out := make([]nativeResult, len(vecs))
	dir := filepath.Dir(bin)
	vf := filepath.Join(dir, fmt.Sprintf("vec-%d.json", time.Now().UnixNano()))
	raw, _ := json.Marshal(vecs)
	os.WriteFile(vf, raw, 0o644)
	defer os.Remove(vf)
	cmd := exec.Command(bin, "-test.run", "^TestVerifReplay$", "-test.count=1", "-test.timeout", timeout.String())
	cmd.Dir = cwd
	cmd.Env = append(os.Environ(), "VERIF_REPLAY="+vf, fmt.Sprintf("VERIF_WATCHDOG_MS=%d", watchdogMs))
	done := make(chan struct{})
	var b []byte
	go func() { b, _ = cmd.CombinedOutput(); close(done) }()
	select {
	case <-done:
	case <-time.After(timeout + 10*time.Second):
		if cmd.Process != nil {
			cmd.Process.Kill()
		}
		<-done
	}
	txt := string(b)
	for _, l := range strings.Split(txt, "\n") {
		m := resRe.FindStringSubmatch(strings.TrimSpace(l))
		if m == nil {
			continue
		}
		i, _ := strconv.Atoi(m[1])
		if i < 0 || i >= len(out) {
			continue
		}
		d, _ := strconv.Atoi(m[4])
		lab, err := strconv.Unquote(`"` + m[3] + `"`)
		if err != nil {
			lab = m[3]
		}
		out[i] = nativeResult{kind: m[2], label: lab, obs: m[5], div: d, found: true}
	}
	// a crash of the whole process (panic on another goroutine, fatal error) leaves vectors without result
	crashed := strings.Contains(txt, "\npanic:") || strings.HasPrefix(txt, "panic:") || strings.Contains(txt, "fatal error:")
	for i := range out {
		if !out[i].found && crashed {
			out[i] = nativeResult{kind: "panic", label: "process crashed", found: true}
			break
		}
	}
	return out, txt
}

// nativePhase builds the package natively with the same harness files and (a) replays a sample of the
// explored OK paths (path-directed translator validation), (b) replays every counter-example.
func (r *Report) nativePhase(modDir, pkg string, lp *LoadedPkg, results []*HarnessResult) {
	runDir := filepath.Join(verifRoot, ".run", fmt.Sprintf("%s-%s-%d", r.prop.ID, strings.ReplaceAll(pkg, "/", "_"), os.Getpid()))
	os.MkdirAll(runDir, 0o755)
	defer os.RemoveAll(runDir)
	// overlay: harness + support + test file
	replace := map[string]string{}
	i := 0
	var entries []string
	for _, res := range results {
		entries = append(entries, res.Spec.Entry)
	}
	pn := packageName(lp.pkgDir)
	var tb strings.Builder
	fmt.Fprintf(&tb, "package %s\n\nimport \"testing\"\n\nfunc TestVerifReplay(t *testing.T) {\n\tverifRunAll(map[string]func(){\n", pn)
	seenE := map[string]bool{}
	for _, e := range entries {
		if !seenE[e] {
			seenE[e] = true
			fmt.Fprintf(&tb, "\t\t%q: %s,\n", e, e)
		}
	}
	tb.WriteString("\t})\n}\n")
	files := map[string][]byte{}
	for k, v := range lp.files {
		files[k] = v
	}
	files[filepath.Join(lp.pkgDir, "zz_verif_replay_test.go")] = []byte(tb.String())
	for path, src := range files {
		real := filepath.Join(runDir, fmt.Sprintf("f%d_%s", i, filepath.Base(path)))
		i++
		os.WriteFile(real, src, 0o644)
		replace[path] = real
	}
	ov, _ := json.Marshal(map[string]any{"Replace": replace})
	ovPath := filepath.Join(runDir, "overlay.json")
	os.WriteFile(ovPath, ov, 0o644)
	bin := filepath.Join(runDir, "replay.test")
	t0 := time.Now()
	cmd := exec.Command("go", "test", "-c", "-vet=off", "-overlay", ovPath, "-o", bin, "./"+pkg)
	cmd.Dir = modDir
	cmd.Env = goEnv()
	if out, err := cmd.CombinedOutput(); err != nil {
		msg := strings.TrimSpace(string(out))
		if len(msg) > 600 {
			msg = msg[:600]
		}
		for _, res := range results {
			r.addInconclusive(res.Spec.Name, "native build of harness failed: "+strings.ReplaceAll(msg, "\n", " | "))
		}
		return
	}
	buildS := time.Since(t0).Seconds()
	_ = buildS
	for _, res := range results {
		if res.Sh == nil {
			continue
		}
		hs := res.Spec
		hr := r.byName[hs.Name]
		sh := res.Sh
		// (a) path-directed validation
		k := []int{8, 32}[r.tier]
		samples := sh.okSamples
		if len(samples) > k {
			step := float64(len(samples)) / float64(k)
			var pick []*Vector
			for j := 0; j < k; j++ {
				pick = append(pick, samples[int(float64(j)*step)])
			}
			samples = pick
		}
		if len(samples) > 0 {
			nres, txt := runNative(bin, lp.pkgDir, samples, 20000, 240*time.Second)
			for j, nr := range nres {
				hr.NativeTried++
				wantObs := strings.Join(samples[j].Obs, ",")
				switch {
				case !nr.found:
					hr.Inconclusive = append(hr.Inconclusive, "native run gave no result for sampled path")
					r.addInconclusive(hs.Name, "engine-mismatch: native run produced no result for a sampled OK path: "+tail(txt, 300))
				case nr.kind == "ok" && nr.obs == wantObs:
					hr.NativeOK++
					r.validated++
				case nr.kind == "ok":
					r.addInconclusive(hs.Name, fmt.Sprintf("engine-mismatch: observations differ on a sampled OK path: engine=%s native=%s vec=%s", wantObs, nr.obs, vecString(samples[j])))
				default:
					if hs.Sched && (nr.kind == "fail" || nr.kind == "deadlock" || nr.kind == "panic") {
						// schedule-dependent native behaviour the engine's path did not take: not comparable
						r.addInconclusive(hs.Name, fmt.Sprintf("native run of a sampled OK path ended %s %q under the Go scheduler (vec=%s)", nr.kind, nr.label, vecString(samples[j])))
					} else {
						r.addInconclusive(hs.Name, fmt.Sprintf("engine-mismatch: engine path OK but native %s %q (vec=%s)", nr.kind, nr.label, vecString(samples[j])))
					}
				}
			}
			for j := 0; j < len(samples) && j < 2; j++ {
				r.samples = append(r.samples, map[string]any{"harness": hs.Name, "kind": "explored OK path replayed natively", "choices": samples[j].Choices, "values": samples[j].Vals, "observations": samples[j].Obs})
			}
		}
		// (b) counter-examples
		order := map[string]int{"fail": 0, "panic": 1, "deadlock": 2}
		var fs []Finding
		for _, f := range sh.findings {
			if _, ok := order[f.Kind]; ok {
				fs = append(fs, f)
			}
		}
		sort.SliceStable(fs, func(a, b int) bool { return order[fs[a].Kind] < order[fs[b].Kind] })
		reported := map[string]bool{}
		for _, f := range fs {
			label := f.Label
			if kf, ok := r.isKnown(label); ok {
				if _, done := r.knownHit[label]; !done {
					r.knownHit[label] = kf.desc
				}
				continue
			}
			if reported[f.Kind+label] {
				continue
			}
			if !f.HasModel {
				r.addInconclusive(hs.Name, fmt.Sprintf("counter-example candidate %s %q without model (solver unknown)", f.Kind, f.Msg))
				continue
			}
			rep := 1
			if hs.Sched {
				rep = 40
			}
			var got nativeResult
			repro := false
			for a := 0; a < rep && !repro; a++ {
				wd := 20000
				if f.Kind == "deadlock" || hs.Sched {
					wd = 3000
				}
				nres, _ := runNative(bin, lp.pkgDir, []*Vector{f.Vec}, wd, 120*time.Second)
				got = nres[0]
				switch f.Kind {
				case "fail":
					repro = got.kind == "fail" && got.label == f.Msg
				case "panic":
					repro = got.kind == "panic"
				case "deadlock":
					repro = got.kind == "deadlock"
				}
				if !hs.Sched {
					break
				}
			}
			if repro {
				reported[f.Kind+label] = true
				dir := filepath.Join(verifRoot, "replay", r.prop.ID)
				os.MkdirAll(dir, 0o755)
				path := filepath.Join(dir, fmt.Sprintf("%s-%s.json", hs.Name, sanitizeFile(label)))
				doc := map[string]any{"property": r.prop.ID, "harness": hs.Name, "entry": hs.Entry, "package": pkg, "module_dir": modDir,
					"kind": f.Kind, "label": f.Msg, "choices": f.Choices, "vector": f.Vec, "native_result": got.kind + " " + got.label}
				b, _ := json.MarshalIndent(doc, "", " ")
				os.WriteFile(path, b, 0o644)
				r.violations = append(r.violations, path)
				r.validated++
				fmt.Printf("VIOLATION property=%s replay=%s\n", r.prop.ID, path)
				fmt.Printf("  harness=%s kind=%s label=%s\n  vector=%s\n", hs.Name, f.Kind, f.Msg, vecString(f.Vec))
				r.samples = append(r.samples, map[string]any{"harness": hs.Name, "kind": "counter-example reproduced natively", "label": f.Msg, "choices": f.Vec.Choices, "values": f.Vec.Vals})
			} else {
				r.addInconclusive(hs.Name, fmt.Sprintf("UNCONFIRMED: engine found %s %q but the native replay gave %s %q (vec=%s)", f.Kind, f.Msg, got.kind, got.label, vecString(f.Vec)))
			}
		}
	}
}

func tail(s string, n int) string {
	s = strings.TrimSpace(s)
	if len(s) > n {
		s = s[len(s)-n:]
	}
	return strings.ReplaceAll(s, "\n", " | ")
}

func sanitizeFile(s string) string {
	var sb strings.Builder
	for _, c := range s {
		if c >= 'a' && c <= 'z' || c >= 'A' && c <= 'Z' || c >= '0' && c <= '9' || c == '_' || c == '-' {
			sb.WriteRune(c)
		} else {
			sb.WriteByte('_')
		}
	}
	if sb.Len() > 60 {
		return sb.String()[:60]
	}
	return sb.String()
}

func (r *Report) finish() int {
	labels := make([]string, 0, len(r.knownHit))
	for l := range r.knownHit {
		labels = append(labels, l)
	}
	sort.Strings(labels)
	for _, l := range labels {
		fmt.Printf("KNOWN-FINDING: property=%s %s %s\n", r.prop.ID, l, r.knownHit[l])
	}
	seed := 0
	if s := os.Getenv("VERIF_SEED"); s != "" {
		seed, _ = strconv.Atoi(s)
	}
	if len(r.samples) == 0 {
		r.samples = append(r.samples, map[string]any{"note": "no sample collected"})
	}
	if len(r.samples) > 8 {
		r.samples = r.samples[:8]
	}
	var totalQ, unk int
	var solverS float64
	for _, h := range r.hreps {
		totalQ += h.Queries["total"]
		unk += h.Queries["unknown"]
		solverS += h.SolverS
	}
	cov := map[string]any{
		"states":                        max(r.states, 0),
		"transitions":                   max(r.transitions, 0),
		"traces_validated_against_impl": r.validated,
		"samples":                       r.samples,
		"obligations":                   r.obligations,
		"discharged":                    r.discharged,
		"exhaustive":                    len(r.inconclusive) == 0,
		"inconclusive":                  len(r.inconclusive) > 0,
		"inconclusive_reasons":          r.inconclusive,
		"harnesses":                     r.hreps,
		"solver":                        "BV harnesses: z3 4.8.12 (z3 -in, incremental); INT harnesses: z3 5.1.0 (z3-new -in, non-incremental); the thorough tier re-checks every unsat verdict with the other of the two",
		"solver_queries":                totalQ,
		"solver_unknown":                unk,
		"solver_s":                      solverS,
		"known_findings_matched":        labels,
		"explanation": "states = root-to-leaf symbolic paths of the harness over the real go/ssa code (each path covers all inputs satisfying its path condition); " +
			"transitions = solver-decided branch/choice decisions; traces_validated_against_impl = explored paths (model values) and counter-examples re-run against the natively compiled real code with identical outcome",
		"technique": "symbolic execution of go/ssa built from /repo's current sources + SMT (bounded; bounds listed per harness under bounds/choice_arity)",
	}
	ev := map[string]any{
		"property_id": r.prop.ID,
		"tier":        []string{"quick", "thorough"}[r.tier],
		"seed":        seed,
		"level":       "model_checking",
		"coverage":    cov,
		"assumptions": dedup(append(r.assumptions, r.prop.Assumptions...)),
		"wall_s":      time.Since(r.t0).Seconds(),
		"violations":  len(r.violations),
	}
	os.MkdirAll(filepath.Join(verifRoot, "evidence"), 0o755)
	b, _ := json.MarshalIndent(ev, "", " ")
	os.WriteFile(filepath.Join(verifRoot, "evidence", r.prop.ID+".json"), b, 0o644)
	status := "HELD"
	if len(r.violations) > 0 {
		status = "VIOLATED"
	} else if len(r.inconclusive) > 0 {
		status = "INCONCLUSIVE"
	}
	fmt.Printf("RESULT property=%s tier=%s status=%s paths=%d decisions=%d queries=%d unknown=%d validated=%d wall=%.1fs\n",
		r.prop.ID, []string{"quick", "thorough"}[r.tier], status, r.states, r.transitions, totalQ, unk, r.validated, time.Since(r.t0).Seconds())
	if len(r.violations) > 0 {
		return 1
	}
	return 0
}

func dedup(in []string) []string {
	seen := map[string]bool{}
	out := []string{}
	for _, s := range in {
		if !seen[s] {
			seen[s] = true
			out = append(out, s)
		}
	}
	return out
}

func cmdReplay(args []string) int {
	if len(args) < 2 {
		usage()
	}
	raw, err := os.ReadFile(args[1])
	if err != nil {
		fmt.Println(err)
		return 2
	}
	var doc struct {
		Property string  `json:"property"`
		Harness  string  `json:"harness"`
		Kind     string  `json:"kind"`
		Label    string  `json:"label"`
		Vector   *Vector `json:"vector"`
	}
	if err := json.Unmarshal(raw, &doc); err != nil {
		fmt.Println(err)
		return 2
	}
	prop := findProp(doc.Property)
	if prop == nil {
		fmt.Println("unknown property", doc.Property)
		return 2
	}
	for i := range prop.Harnesses {
		hs := &prop.Harnesses[i]
		if hs.Name != doc.Harness {
			continue
		}
		lp, err := loadPkg(hs.modDir(), hs.Pkg, hs.Files)
		if err != nil {
			fmt.Println("load:", err)
			return 2
		}
		rep := newReport(prop, doc.Vector.Tier)
		sh := NewShared(1)
		sh.findings = []Finding{{Kind: doc.Kind, Label: doc.Label, Msg: doc.Label, HasModel: true, Vec: doc.Vector}}
		if doc.Kind != "fail" {
			sh.findings[0].Label = doc.Kind
		}
		res := &HarnessResult{Spec: hs, Sh: sh}
		rep.known = nil
		rep.byName[hs.Name] = &harnessReport{Name: hs.Name}
		rep.nativePhase(hs.modDir(), hs.Pkg, lp, []*HarnessResult{res})
		if len(rep.violations) > 0 {
			fmt.Println("REPRODUCED")
			return 1
		}
		fmt.Println("NOT-REPRODUCED")
		return 0
	}
	fmt.Println("unknown harness", doc.Harness)
	return 2
}
