package main

import (
	"golang.org/x/tools/go/ssa"
)

// strings.Repeat, strings.Clone and (*strings.Builder).String build their result with unsafe.String in the real source.
func init() {
	extraIntrinsics = append(extraIntrinsics, func(in *Interp, fn *ssa.Function, name string, args []V) (V, bool) {
		switch name {
		case "strings.Repeat":
			s := args[0].(Str)
			n := args[1].(Int)
			if n.S != nil {
				panic(unsupported("strings.Repeat with a symbolic count"))
			}
			cnt := int(signExt(n.C, n.W))
			if cnt < 0 {
				panic(goPanic{Str{S: "strings: negative Repeat count"}})
			}
			one := in.strBytes(s)
			var all []V
			for i := 0; i < cnt; i++ {
				all = append(all, one...)
			}
			return in.bytesToStr(all), true
		case "strings.Clone", "internal/stringslite.Clone":
			return args[0], true // strings are immutable values in the interpreter
		case "(*strings.Builder).String":
			p := args[0].(Ptr)
			st := (*p).(Struct)
			buf, _ := st[1].(Slice) // type Builder struct { addr *Builder; buf []byte }
			return in.bytesToStr(buf.A), true
		}
		return nil, false
	})
}
