package main

import (
	"fmt"
	"go/token"
	"go/types"
	"math"
	"strconv"

	"golang.org/x/tools/go/ssa"
)

// Concrete float64 support: a float value is always a concrete Go float64 (constants, conversions of concrete
// integers, arithmetic on those, strconv.FormatFloat/ParseFloat/math.Pow10 on concrete arguments). There is no
// floating-point theory: a float derived from a symbolic integer stays Opaque{"float"} and any use of it that matters
// ends the path UNSUPPORTED. This is enough to run float code on concrete regression vectors (C34).
type Float struct{ C float64 }

func isFloatType(t types.Type) bool {
	b, ok := t.Underlying().(*types.Basic)
	return ok && b.Info()&types.IsFloat != 0
}

func isFloat64Type(t types.Type) bool {
	b, ok := t.Underlying().(*types.Basic)
	return ok && (b.Kind() == types.Float64 || b.Kind() == types.UntypedFloat)
}

// floatConvert handles conversions from/to float types; ok=false if neither side is a float.
func (in *Interp) floatConvert(v V, from, to types.Type) (V, bool) {
	if isFloatType(to) {
		if !isFloat64Type(to) {
			panic(unsupported("float32"))
		}
		switch x := v.(type) {
		case Float:
			return x, true
		case Int:
			if x.S != nil {
				return Opaque{"float"}, true
			}
			if x.Signed {
				return Float{float64(signExt(x.C, x.W))}, true
			}
			return Float{float64(x.C)}, true
		case Opaque:
			return x, true
		}
		return nil, false
	}
	if isFloatType(from) {
		f, isF := v.(Float)
		if !isF {
			panic(unsupported("conversion of a float derived from symbolic data"))
		}
		if w, s, ok := intInfo(to); ok {
			// the result of an out-of-range float->integer conversion is implementation-specific in Go; the engine runs
			// on the same platform as the native replay and uses the platform's conversion
			if s {
				return in.cInt(uint64(int64(f.C)), w, true), true
			}
			return in.cInt(uint64(f.C), w, false), true
		}
		panic(unsupported("convert float -> " + to.String()))
	}
	return nil, false
}

func (in *Interp) floatBinop(op token.Token, a, b V) V {
	x, ok1 := a.(Float)
	y, ok2 := b.(Float)
	if !ok1 || !ok2 {
		panic(unsupported("arithmetic on a float derived from symbolic data"))
	}
	switch op {
	case token.ADD:
		return Float{x.C + y.C}
	case token.SUB:
		return Float{x.C - y.C}
	case token.MUL:
		return Float{x.C * y.C}
	case token.QUO:
		return Float{x.C / y.C}
	case token.EQL:
		return Bool{C: x.C == y.C}
	case token.NEQ:
		return Bool{C: x.C != y.C}
	case token.LSS:
		return Bool{C: x.C < y.C}
	case token.LEQ:
		return Bool{C: x.C <= y.C}
	case token.GTR:
		return Bool{C: x.C > y.C}
	case token.GEQ:
		return Bool{C: x.C >= y.C}
	}
	panic(unsupported(fmt.Sprintf("float binop %s", op)))
}

func concStr(v V) (string, bool) {
	s, ok := v.(Str)
	if !ok {
		return "", false
	}
	if s.B == nil {
		return s.S, true
	}
	raw := make([]byte, len(s.B))
	for i, e := range s.B {
		ei := e.(Int)
		if ei.S != nil {
			return "", false
		}
		raw[i] = byte(ei.C)
	}
	return string(raw), true
}

func init() {
	extraIntrinsics = append(extraIntrinsics, func(in *Interp, fn *ssa.Function, name string, args []V) (V, bool) {
		switch name {
		case "math.Pow10":
			n := args[0].(Int)
			if n.S != nil {
				panic(unsupported("math.Pow10 of a symbolic exponent"))
			}
			return Float{math.Pow10(int(signExt(n.C, n.W)))}, true
		case "strconv.FormatFloat":
			f, ok := args[0].(Float)
			fm, prec, bits := args[1].(Int), args[2].(Int), args[3].(Int)
			if !ok || fm.S != nil || prec.S != nil || bits.S != nil {
				panic(unsupported("strconv.FormatFloat of a float derived from symbolic data (no floating-point theory)"))
			}
			return Str{S: strconv.FormatFloat(f.C, byte(fm.C), int(signExt(prec.C, prec.W)), int(signExt(bits.C, bits.W)))}, true
		case "strconv.ParseFloat":
			s, ok := concStr(args[0])
			bits := args[1].(Int)
			if !ok || bits.S != nil {
				panic(unsupported("strconv.ParseFloat of a symbolic string (no floating-point theory)"))
			}
			f, err := strconv.ParseFloat(s, int(signExt(bits.C, bits.W)))
			if err != nil {
				return Tuple{Float{f}, in.newErr("strconv.ParseFloat: " + err.Error())}, true
			}
			return Tuple{Float{f}, Iface{}}, true
		}
		return nil, false
	})
}
