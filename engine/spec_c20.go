package main

func init() {
	register(PropSpec{ID: "C20", Harnesses: []HarnessSpec{
		{Name: "lifecycle", Pkg: "snow", Files: []string{"snow/c20_lifecycle.go"}, Entry: "VerifC20", Sched: true, Preempt: [2]int{0, 1},
			Reach:       []string{"accepted", "rejected", "built", "context-mismatch"},
			Stubs:       []string{"the inner chain is a harness Chain (verification result = per-block validity bit, it records every VerifyBlock/AcceptBlock call), the chain index a map", "the VM is assembled as VM.Initialize does, without config parsing, p2p network and health checkers; metrics/tracer/logger opaque"},
			Assumptions: []string{"the consensus engine obeys the snowman contract: Verify only on a block whose parent is processing or the last accepted block, Accept only on a processing child of the last accepted block, followed by Reject of every conflicting processing block (parents first); engine calls are serial (the engine holds its own lock)", "goroutines switch only at synchronisation operations"},
			Outside:     []string{"more than engineCalls calls, block trees other than G-(A1-(A2[,C2]), B1-B2) plus one locally built block, more than one invalid block", "dynamic state sync (C21)", "schedules beyond the preemption bound"}},
		{Name: "smallcache", Pkg: "snow", Files: []string{"snow/c20_lifecycle.go"}, Entry: "VerifC20SmallCache", Sched: true, Preempt: [2]int{0, 0},
			Stubs:       []string{"as harness lifecycle; accepted-block caches of size 1..2, parsed-block cache of size 1"},
			Assumptions: []string{"as harness lifecycle"},
			Outside:     []string{"as harness lifecycle; no locally built blocks"}},
	}})
}
