package main

// SELFTEST is not a property: it runs Go-semantics micro-cases through the interpreter and through the natively compiled
// code and compares every observation (translator validation of the engine itself).
func init() {
	register(PropSpec{ID: "SELFTEST", Harnesses: []HarnessSpec{
		{Name: "gosemantics", Pkg: "keys", Files: []string{"selftest/selftest.go"}, Entry: "VerifSelfTest"},
	}})
}
