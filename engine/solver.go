package main

import (
	"bufio"
	"fmt"
	"io"
	"math/big"
	"os"
	"os/exec"
	"strings"
	"time"
)

type Solver struct {
	ufEpoch map[string]int
	resetMode bool
	pc        []*Term
	cmd     *exec.Cmd
	in      io.WriteCloser
	bw      *bufio.Writer // buffered solver input: flushed before every read (one write syscall per query instead of one per line)
	out     *bufio.Reader
	defined map[int]int // term id -> epoch defined
	declared map[string]bool
	epoch   int
	queries int
	nsat, nunsat, nunk int
	elapsed time.Duration
	log     io.Writer
	enumSeq int
}

func NewSolver(bin string, timeoutMs int) (*Solver, error) {
	cmd := exec.Command(bin, "-in", fmt.Sprintf("-t:%d", timeoutMs))
	in, _ := cmd.StdinPipe()
	out, _ := cmd.StdoutPipe()
	cmd.Stderr = cmd.Stdout
	if err := cmd.Start(); err != nil {
		return nil, err
	}
	s := &Solver{cmd: cmd, in: in, bw: bufio.NewWriterSize(in, 1<<16), out: bufio.NewReader(out), defined: map[int]int{}, declared: map[string]bool{}}
	return s, nil
}

func (s *Solver) send(line string) {
	if s.log != nil {
		fmt.Fprintln(s.log, line)
	}
	s.bw.WriteString(line)
	s.bw.WriteByte('\n')
}

func (s *Solver) readLine() string {
	s.bw.Flush()
	l, err := s.out.ReadString('\n')
	if err != nil {
		panic("solver died: " + err.Error())
	}
	return strings.TrimSpace(l)
}

// BeginPath opens a fresh scope for one path.
func (s *Solver) BeginPath() {
	s.epoch++
	s.pc = s.pc[:0]
	if !s.resetMode {
		s.send("(push 1)")
	}
}
func (s *Solver) EndPath() {
	if !s.resetMode {
		s.send("(pop 1)")
	}
}

// fresh re-sends the whole problem after a (reset): non-incremental solving.
func (s *Solver) fresh(extra *Term) string {
	s.epoch++
	s.send("(reset)")
	for _, t := range s.pc {
		s.define(t)
		s.send(fmt.Sprintf("(assert %s)", t.ref()))
	}
	if extra != nil {
		s.define(extra)
		s.send(fmt.Sprintf("(assert %s)", extra.ref()))
	}
	return s.check()
}

func (s *Solver) define(t *Term) {
	switch t.op {
	case "const", "iconst", "true", "false":
		return
	case "var":
		if !s.declared[t.name] {
			// declarations are global: emitted outside any push by construction? we are inside push; so track per epoch
		}
		if s.defined[t.id] == s.epoch {
			return
		}
		s.defined[t.id] = s.epoch
		s.send(fmt.Sprintf("(declare-const %s %s)", t.name, sortOf(t.w)))
		return
	}
	if s.defined[t.id] == s.epoch {
		return
	}
	for _, a := range t.args {
		s.define(a)
	}
	if strings.HasPrefix(t.op, "uf:") {
		name := strings.TrimPrefix(t.op, "uf:")
		if s.ufEpoch == nil {
			s.ufEpoch = map[string]int{}
		}
		if s.ufEpoch[name] != s.epoch {
			s.ufEpoch[name] = s.epoch
			var sb strings.Builder
			for _, a := range t.args {
				sb.WriteString(sortOf(a.w))
				sb.WriteByte(' ')
			}
			s.send(fmt.Sprintf("(declare-fun %s (%s) %s)", name, sb.String(), sortOf(t.w)))
		}
	}
	s.defined[t.id] = s.epoch
	s.send(fmt.Sprintf("(define-fun %s () %s %s)", t.ref(), sortOf(t.w), t.body()))
}

func (s *Solver) Assert(t *Term) {
	s.pc = append(s.pc, t)
	if s.resetMode {
		return
	}
	s.define(t)
	s.send(fmt.Sprintf("(assert %s)", t.ref()))
}

func (s *Solver) check() string {
	t0 := time.Now()
	s.send("(check-sat)")
	r := s.readLine()
	for strings.HasPrefix(r, "(error") {
		r = "unknown"
	}
	d := time.Since(t0)
	s.elapsed += d
	s.queries++
	if d > 2*time.Second && s.log != nil {
		fmt.Fprintf(s.log, "; SLOW query #%d %v result=%s\n", s.queries, d, r)
	}
	switch r {
	case "sat":
		s.nsat++
	case "unsat":
		s.nunsat++
	default:
		s.nunk++
		r = "unknown"
	}
	return r
}

// CheckWith checks satisfiability of current assertions plus extra (not kept).
func (s *Solver) CheckWith(extra *Term) string {
	if s.resetMode {
		return s.fresh(extra)
	}
	s.define(extra) // definitions stay within the path scope
	s.send("(push 1)")
	s.send(fmt.Sprintf("(assert %s)", extra.ref()))
	r := s.check()
	s.send("(pop 1)")
	return r
}

func (s *Solver) Check() string {
	if s.resetMode {
		return s.fresh(nil)
	}
	return s.check()
}

// Values returns model values of the given variables (after a sat check at the same level).
func (s *Solver) Values(vars []*Term) map[string]*big.Int {
	res := map[string]*big.Int{}
	// only terms known to the solver in this scope can be evaluated; unconstrained ones default to 0
	var known []*Term
	for _, v := range vars {
		if s.defined[v.id] == s.epoch {
			known = append(known, v)
		}
	}
	vars = known
	if len(vars) == 0 {
		return res
	}
	var sb strings.Builder
	sb.WriteString("(get-value (")
	for _, v := range vars {
		sb.WriteString(v.ref())
		sb.WriteByte(' ')
	}
	sb.WriteString("))")
	s.send(sb.String())
	// read balanced parens
	depth, started := 0, false
	var buf strings.Builder
	for {
		l := s.readLine()
		buf.WriteString(l)
		buf.WriteByte(' ')
		for _, c := range l {
			if c == '(' {
				depth++
				started = true
			} else if c == ')' {
				depth--
			}
		}
		if started && depth <= 0 {
			break
		}
	}
	txt := buf.String()
	if os.Getenv("GOSYM_DEBUG") != "" {
		fmt.Println("GET-VALUE:", txt)
	}
	for _, v := range vars {
		i := strings.Index(txt, "("+v.ref()+" ")
		if i < 0 {
			continue
		}
		rest := txt[i+len(v.ref())+2:]
		j := strings.IndexAny(rest, ")")
		tok := strings.TrimSpace(rest[:j])
		n := new(big.Int)
		switch {
		case strings.HasPrefix(tok, "#x"):
			n.SetString(tok[2:], 16)
		case strings.HasPrefix(tok, "#b"):
			n.SetString(tok[2:], 2)
		case tok == "true":
			n.SetInt64(1)
		case tok == "false":
			n.SetInt64(0)
		default:
			tok = strings.NewReplacer("(", "", ")", "", " ", "").Replace(tok)
			n.SetString(tok, 10)
		}
		res[v.ref()] = n
	}
	return res
}

func (s *Solver) Close() { s.send("(exit)"); s.bw.Flush(); s.cmd.Wait() }
