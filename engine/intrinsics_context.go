package main

import (
	"go/types"

	"golang.org/x/tools/go/ssa"
)

// context.WithCancel / WithTimeout / WithDeadline are modelled by an engine-side context object whose Done channel is a
// scheduler channel: cancel() closes it (and those of derived contexts). Deadlines never fire on their own (time is
// abstract): a timeout context behaves like a cancel context. context.Background() stays an opaque, never-cancelled value.

var ctxT = types.NewNamed(types.NewTypeName(0, nil, "verifContext", nil), types.NewStruct(nil, nil), nil)

type CtxV struct {
	done      *ChanV
	cancelled bool
	children  []*CtxV
}

// NativeFn is a function value implemented by the engine.
type NativeFn struct {
	name string
	f    func(in *Interp, args []V) V
}

func (c *CtxV) cancel(in *Interp) {
	if c.cancelled {
		return
	}
	if in.sched != nil {
		in.sched.visible([]any{c.done}, "chan close", nil)
	}
	c.cancelled = true
	c.done.closed = true
	for _, ch := range c.children {
		ch.cancelNoPoint()
	}
}

func (c *CtxV) cancelNoPoint() {
	if c.cancelled {
		return
	}
	c.cancelled = true
	c.done.closed = true
	for _, ch := range c.children {
		ch.cancelNoPoint()
	}
}

func (in *Interp) newCtx(parent V) (*CtxV, V) {
	c := &CtxV{done: &ChanV{cap: 0, elemZero: func() V { return Struct{} }}}
	if pi, ok := parent.(Iface); ok {
		if pc, ok := pi.V.(*CtxV); ok {
			pc.children = append(pc.children, c)
			if pc.cancelled {
				c.cancelled = true
				c.done.closed = true
			}
		}
	}
	return c, Iface{T: ctxT, V: c}
}

// ctxMethod dispatches a context.Context method on an engine context.
func (in *Interp) ctxMethod(c *CtxV, method string, sig *types.Signature) V {
	switch method {
	case "Done":
		return c.done
	case "Err":
		if c.cancelled {
			if pkg := in.prog.ImportedPackage("context"); pkg != nil {
				if g, ok := pkg.Members["Canceled"].(*ssa.Global); ok {
					return *in.global(g)
				}
			}
			return in.newErr("context canceled")
		}
		return Iface{}
	}
	return zeroSig(sig) // Deadline, Value
}

func init() {
	extraIntrinsics = append(extraIntrinsics, func(in *Interp, fn *ssa.Function, name string, args []V) (V, bool) {
		switch name {
		case "context.WithCancel", "context.WithTimeout", "context.WithDeadline":
			c, iv := in.newCtx(args[0])
			cancel := &NativeFn{name: "context.cancel", f: func(in *Interp, _ []V) V { c.cancel(in); return nil }}
			return Tuple{iv, cancel}, true
		case "context.WithoutCancel", "context.WithValue":
			return args[0], true
		}
		return nil, false
	})
}
