package main

import (
	"go/types"
	"strings"

	"golang.org/x/tools/go/ssa"
)

// sync.Map (implemented with unsafe/atomic pointers in the standard library) is modelled as a linearizable map: every
// operation is one visible (atomic) step on the map object. Range iterates over a snapshot in insertion order.
func init() {
	anyT := types.NewInterfaceType(nil, nil)
	extraIntrinsics = append(extraIntrinsics, func(in *Interp, fn *ssa.Function, name string, args []V) (V, bool) {
		if !strings.HasPrefix(name, "(*sync.Map).") {
			return nil, false
		}
		p := args[0].(Ptr)
		if in.syncMaps == nil {
			in.syncMaps = map[Ptr]*MapV{}
		}
		m := in.syncMaps[p]
		if m == nil {
			m = &MapV{KT: anyT, VT: anyT}
			in.syncMaps[p] = m
		}
		if in.sched != nil {
			in.sched.visible([]any{p}, "armw", nil)
		}
		switch name[len("(*sync.Map)."):] {
		case "Load":
			if i := in.mapFind(m, args[1]); i >= 0 {
				return Tuple{m.Vals[i], Bool{C: true}}, true
			}
			return Tuple{Iface{}, Bool{C: false}}, true
		case "Store":
			in.mapSet(m, args[1], args[2])
			return nil, true
		case "LoadOrStore":
			if i := in.mapFind(m, args[1]); i >= 0 {
				return Tuple{m.Vals[i], Bool{C: true}}, true
			}
			in.mapSet(m, args[1], args[2])
			return Tuple{args[2], Bool{C: false}}, true
		case "LoadAndDelete":
			if i := in.mapFind(m, args[1]); i >= 0 {
				v := m.Vals[i]
				in.mapDelete(m, args[1])
				return Tuple{v, Bool{C: true}}, true
			}
			return Tuple{Iface{}, Bool{C: false}}, true
		case "Delete":
			in.mapDelete(m, args[1])
			return nil, true
		case "Range":
			keys := append([]V{}, m.Keys...)
			vals := append([]V{}, m.Vals...)
			for i := range keys {
				r := in.callValue(args[1], []V{keys[i], vals[i]}).(Bool)
				if !in.truth(r) {
					break
				}
			}
			return nil, true
		}
		return nil, false
	})
}
