package main

func init() {
	register(PropSpec{ID: "C26", Harnesses: []HarnessSpec{
		{Name: "parallel", Pkg: "internal/workers", Files: []string{"workers/c26_workers.go"}, Entry: "VerifC26Parallel", Sched: true, Preempt: [2]int{1, 2},
			Reach:       []string{"job-failed", "stopped-with-jobs-outstanding", "pending-job-reports-shutdown"},
			Assumptions: []string{"Done is called on every job before Stop (a job whose task channel is never closed blocks the queue by design)", "goroutines switch only at synchronisation operations (channel, select, mutex, WaitGroup, atomic): sound for data-race-free code"},
			Outside:     []string{"more than 2 workers, 2 jobs, maxTasks tasks per job", "schedules with more preemptions than the stated bound (switches at blocking operations are unbounded)", "tasks that panic"}},
		{Name: "backlog", Pkg: "internal/workers", Files: []string{"workers/c26_workers.go"}, Entry: "VerifC26Backlog", Sched: true, Preempt: [2]int{1, 2},
			Reach:       []string{"all-jobs-submitted"},
			Assumptions: []string{"each job is submitted completely (tasks + Done) before the next NewJob, so a NewJob that waits for a backlog slot can always be served", "goroutines switch only at synchronisation operations"},
			Outside:     []string{"more than 2 workers, 3 jobs, 2 tasks per job, job backlogs above 1", "schedules with more preemptions than the stated bound"}},
		{Name: "serial", Pkg: "internal/workers", Files: []string{"workers/c26_workers.go"}, Entry: "VerifC26Serial", Sched: true},
	}})
}
