package main

import (
	"math/big"
)

// math/big.Int modelled exactly: concrete *big.Int or SMT Int term.
type BigVal struct {
	C *big.Int
	T *Term
}

func (in *Interp) bigTerm(b BigVal) *Term {
	if b.T != nil {
		return b.T
	}
	return in.ts.IntC(b.C)
}

func (in *Interp) bigOf(p V) BigVal {
	ptr := p.(Ptr)
	if bv, ok := (*ptr).(BigVal); ok {
		return bv
	}
	return BigVal{C: new(big.Int)} // zero value of big.Int
}

func (in *Interp) bigSet(p V, b BigVal) V {
	ptr := p.(Ptr)
	if b.T != nil && b.T.op == "iconst" {
		b = BigVal{C: new(big.Int).Set(b.T.val)}
	}
	*ptr = b
	return p
}

func (in *Interp) bigIntrinsic(name string, args []V) (V, bool) {
	switch name {
	case "(*math/big.Int).SetUint64":
		i := args[1].(Int)
		if i.S == nil {
			return in.bigSet(args[0], BigVal{C: new(big.Int).SetUint64(i.C)}), true
		}
		if !in.intMode {
			panic(unsupported("big.Int symbolic outside INT mode"))
		}
		return in.bigSet(args[0], BigVal{T: i.S}), true
	case "(*math/big.Int).SetInt64":
		i := args[1].(Int)
		if i.S == nil {
			return in.bigSet(args[0], BigVal{C: big.NewInt(signExt(i.C, 64))}), true
		}
		return in.bigSet(args[0], BigVal{T: i.S}), true
	case "math/big.NewInt":
		i := args[0].(Int)
		slot := new(V)
		if i.S == nil {
			*slot = BigVal{C: big.NewInt(signExt(i.C, 64))}
		} else {
			*slot = BigVal{T: i.S}
		}
		return Ptr(slot), true
	case "(*math/big.Int).Set":
		return in.bigSet(args[0], in.bigOf(args[1])), true
	case "(*math/big.Int).Mul", "(*math/big.Int).Add", "(*math/big.Int).Sub", "(*math/big.Int).Div":
		a, b := in.bigOf(args[1]), in.bigOf(args[2])
		if a.T == nil && b.T == nil {
			r := new(big.Int)
			switch name {
			case "(*math/big.Int).Mul":
				r.Mul(a.C, b.C)
			case "(*math/big.Int).Add":
				r.Add(a.C, b.C)
			case "(*math/big.Int).Sub":
				r.Sub(a.C, b.C)
			case "(*math/big.Int).Div":
				if b.C.Sign() == 0 {
					panic(goPanic{Str{S: "division by zero"}})
				}
				r.Div(a.C, b.C)
			}
			return in.bigSet(args[0], BigVal{C: r}), true
		}
		op := map[string]string{"(*math/big.Int).Mul": "*", "(*math/big.Int).Add": "+", "(*math/big.Int).Sub": "-", "(*math/big.Int).Div": "div"}[name]
		if op == "div" {
			if in.truth(in.mkBool(in.ts.Op("=", 0, in.bigTerm(b), in.ts.IntU(0)))) {
				panic(goPanic{Str{S: "division by zero"}})
			}
		}
		return in.bigSet(args[0], BigVal{T: in.iop(op, in.bigTerm(a), in.bigTerm(b))}), true
	case "(*math/big.Int).Sign":
		a := in.bigOf(args[0])
		if a.T == nil {
			return in.cInt(uint64(int64(a.C.Sign())), 64, true), true
		}
		z := in.ts.IntU(0)
		m1 := in.ts.IntC(big.NewInt(-1))
		t := in.ts.Op("ite", -1, in.ts.Op("<", 0, a.T, z), m1, in.ts.Op("ite", -1, in.ts.Op("=", 0, a.T, z), z, in.ts.IntU(1)))
		return in.symI(t, 64, true, 0, nil), true
	case "(*math/big.Int).Cmp":
		a, b := in.bigOf(args[0]), in.bigOf(args[1])
		if a.T == nil && b.T == nil {
			return in.cInt(uint64(int64(a.C.Cmp(b.C))), 64, true), true
		}
		at, bt := in.bigTerm(a), in.bigTerm(b)
		m1 := in.ts.IntC(big.NewInt(-1))
		t := in.ts.Op("ite", -1, in.ts.Op("<", 0, at, bt), m1, in.ts.Op("ite", -1, in.ts.Op("=", 0, at, bt), in.ts.IntU(0), in.ts.IntU(1)))
		return in.symI(t, 64, true, 0, nil), true
	case "(*math/big.Int).IsUint64":
		a := in.bigOf(args[0])
		if a.T == nil {
			return Bool{C: a.C.IsUint64()}, true
		}
		return in.mkBool(in.ts.Op("and", 0, in.ts.Op(">=", 0, a.T, in.ts.IntU(0)), in.ts.Op("<", 0, a.T, in.ts.IntC(pow2(64))))), true
	case "(*math/big.Int).Uint64":
		a := in.bigOf(args[0])
		if a.T == nil {
			return in.cInt(a.C.Uint64(), 64, false), true
		}
		return in.symI(in.iop("mod", a.T, in.ts.IntC(pow2(64))), 64, false, 0, nil), true
	}
	return nil, false
}
