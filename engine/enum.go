package main

import (
	"fmt"
	"math/big"
	"strings"
)

// Model-enumeration concretisation of a symbolic length/capacity (BV mode, incremental solver):
// instead of asking "pc ∧ v = k ?" for every k in [0,max] (max+1 queries; 2^20 for a make() capacity), ask the solver
// for a model, record v's value, exclude it and repeat: (#feasible values + 1) queries.

// EnumValues returns the values (≤ max) the BV term v can take under the current assertions, at most limit of them.
// complete=false when the limit was hit or the solver answered unknown.
func (s *Solver) EnumValues(v *Term, max uint64, limit int) (vals []uint64, complete bool) {
	s.define(v) // stays in the path scope; everything below is sent inline so nothing is defined inside the inner scope
	s.send("(push 1)")
	defer s.send("(pop 1)")
	// a fresh constant equal to v: get-value of a constant is a model lookup (evaluating a defined term is ~100x slower)
	s.enumSeq++
	ev := fmt.Sprintf("enumv_%d", s.enumSeq)
	s.send(fmt.Sprintf("(declare-const %s %s)", ev, sortOf(v.w)))
	s.send(fmt.Sprintf("(assert (= %s %s))", ev, v.ref()))
	s.send(fmt.Sprintf("(assert (bvule %s %s))", ev, bvLit(max, v.w)))
	for len(vals) < limit {
		r := s.check()
		if r == "unsat" {
			return vals, true
		}
		if r != "sat" {
			return vals, false
		}
		s.send(fmt.Sprintf("(get-value (%s))", ev))
		l := s.readLine() // ((enumv_N #x....))
		i := strings.Index(l, "#")
		if i < 0 {
			return vals, false
		}
		tok := strings.TrimRight(l[i:], ") ")
		n := new(big.Int)
		switch {
		case strings.HasPrefix(tok, "#x"):
			n.SetString(tok[2:], 16)
		case strings.HasPrefix(tok, "#b"):
			n.SetString(tok[2:], 2)
		default:
			return vals, false
		}
		k := n.Uint64()
		vals = append(vals, k)
		s.send(fmt.Sprintf("(assert (not (= %s %s)))", ev, bvLit(k, v.w)))
	}
	return vals, false
}

func bvLit(k uint64, w int) string { return fmt.Sprintf("(_ bv%d %d)", k, w) }

// takeValue is take() for "which value does v have", with the feasible set found by model enumeration.
func (e *Explorer) takeValue(kind string, v *Term, max int, eq func(k int) *Term) int {
	if e.depth < len(e.vec) || e.sol.resetMode || v.w <= 0 || v.w > 64 || v.isConst() || max <= 256 {
		return e.take(kind, max+1, eq)
	}
	vals, complete := e.sol.EnumValues(v, uint64(max), 64)
	if !complete {
		return e.take(kind, max+1, eq) // too many values or unknown: the exhaustive scan decides (and reports unknowns)
	}
	feas := make([]int, len(vals))
	for i, x := range vals {
		feas[i] = int(x)
	}
	// ascending order keeps exploration order deterministic
	for i := 1; i < len(feas); i++ {
		for j := i; j > 0 && feas[j] < feas[j-1]; j-- {
			feas[j], feas[j-1] = feas[j-1], feas[j]
		}
	}
	return e.commit(kind, feas, eq)
}
