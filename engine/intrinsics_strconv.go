package main

import (
	"math/big"
	"strconv"

	"golang.org/x/tools/go/ssa"
)

// INT-encoding models of three leaf functions whose real bodies are bit tricks / table lookups that the INT encoding
// cannot express or the solver cannot invert:
//   - strconv.FormatUint(u, 10) on a symbolic u: the decimal digits are (u div 10^k) mod 10 (chained divisions), the
//     number of digits is decided by solver-checked forks; the real body indexes a 200-byte digit-pair table.
//   - math/bits.Mul64 / Add64 on symbolic operands: exact product / sum split at 2^64.
// Concrete arguments (and the BV encoding) run the real source. The models are compared with the native functions by
// the translator validation of every run (sampled paths are replayed natively).
func init() {
	extraIntrinsics = append(extraIntrinsics, func(in *Interp, fn *ssa.Function, name string, args []V) (V, bool) {
		if !in.intMode {
			return nil, false
		}
		two64 := in.ts.IntC(pow2(64))
		switch name {
		case "strconv.FormatUint":
			u, base := args[0].(Int), args[1].(Int)
			if base.S != nil || base.C != 10 {
				return nil, false
			}
			if u.S == nil {
				return Str{S: strconv.FormatUint(u.C, 10)}, true
			}
			n := 1
			p := big.NewInt(10)
			for n < 20 {
				if in.truth(in.mkBool(in.ts.Op("<", 0, u.S, in.ts.IntC(p)))) {
					break
				}
				n++
				p = new(big.Int).Mul(p, big.NewInt(10))
			}
			out := make([]V, n)
			q := u.S
			ten := in.ts.IntU(10)
			for k := n - 1; k >= 0; k-- {
				d := in.iop("mod", q, ten)
				q = in.iop("div", q, ten)
				out[k] = in.symI(in.iop("+", d, in.ts.IntU('0')), 8, false, ^uint64(0x3f), nil)
			}
			return Str{B: out}, true
		case "math/bits.Mul64":
			x, y := args[0].(Int), args[1].(Int)
			if x.S == nil && y.S == nil {
				return nil, false
			}
			p := in.iop("*", in.iterm(x), in.iterm(y))
			return Tuple{in.symI(in.iop("div", p, two64), 64, false, 0, nil), in.symI(in.iop("mod", p, two64), 64, false, 0, nil)}, true
		case "math/bits.Add64":
			x, y, c := args[0].(Int), args[1].(Int), args[2].(Int)
			if x.S == nil && y.S == nil && c.S == nil {
				return nil, false
			}
			s := in.iop("+", in.iop("+", in.iterm(x), in.iterm(y)), in.iterm(c))
			return Tuple{in.symI(in.iop("mod", s, two64), 64, false, 0, nil), in.symI(in.iop("div", s, two64), 64, false, ^uint64(1), nil)}, true
		}
		return nil, false
	})
}
