package main

import (
	"math/big"

	"golang.org/x/tools/go/ssa"
)

// (*big.Int).SetBit / Bit / BitLen on concrete values (avalanchego set.Bits is a big.Int bit set).
func init() {
	extraIntrinsics = append(extraIntrinsics, func(in *Interp, fn *ssa.Function, name string, args []V) (V, bool) {
		switch name {
		case "(*math/big.Int).SetBit":
			x := in.bigOf(args[1])
			i, b := args[2].(Int), args[3].(Int)
			if x.T != nil || i.S != nil || b.S != nil {
				panic(unsupported("big.Int.SetBit on symbolic operands"))
			}
			return in.bigSet(args[0], BigVal{C: new(big.Int).SetBit(x.C, int(signExt(i.C, 64)), uint(b.C))}), true
		case "(*math/big.Int).Bit":
			x := in.bigOf(args[0])
			i := args[1].(Int)
			if x.T != nil || i.S != nil {
				panic(unsupported("big.Int.Bit on symbolic operands"))
			}
			return in.cInt(uint64(x.C.Bit(int(signExt(i.C, 64)))), 64, false), true
		case "(*math/big.Int).BitLen":
			x := in.bigOf(args[0])
			if x.T != nil {
				panic(unsupported("big.Int.BitLen on a symbolic operand"))
			}
			return in.cInt(uint64(x.C.BitLen()), 64, true), true
		}
		return nil, false
	})
}
