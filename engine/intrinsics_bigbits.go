package main

import (
	"math/big"

	"golang.org/x/tools/go/ssa"
)

// Bit-level math/big.Int operations on CONCRETE values (avalanchego set.Bits: markers indexed by slice positions).
// A symbolic big value reaching these is unsupported.
func init() {
	extraIntrinsics = append(extraIntrinsics, func(in *Interp, fn *ssa.Function, name string, args []V) (V, bool) {
		conc := func(v V) *big.Int {
			b := in.bigOf(v)
			if b.T != nil {
				panic(unsupported("bit operation on symbolic big.Int: " + name))
			}
			return b.C
		}
		cint := func(v V) int {
			i := v.(Int)
			if i.S != nil {
				panic(unsupported("symbolic bit index: " + name))
			}
			return int(signExt(i.C, 64))
		}
		switch name {
		case "(*math/big.Int).SetBit":
			x, i, bit := conc(args[1]), cint(args[2]), cint(args[3])
			return in.bigSet(args[0], BigVal{C: new(big.Int).SetBit(x, i, uint(bit))}), true
		case "(*math/big.Int).Bit":
			return in.cInt(uint64(conc(args[0]).Bit(cint(args[1]))), 64, false), true
		case "(*math/big.Int).BitLen":
			return in.cInt(uint64(conc(args[0]).BitLen()), 64, true), true
		case "(*math/big.Int).Bits":
			ws := conc(args[0]).Bits()
			out := make([]V, len(ws))
			for i, w := range ws {
				out[i] = in.cInt(uint64(w), 64, false)
			}
			return Slice{A: out}, true
		case "(*math/big.Int).Or", "(*math/big.Int).And", "(*math/big.Int).AndNot":
			a, b := conc(args[1]), conc(args[2])
			r := new(big.Int)
			switch name {
			case "(*math/big.Int).Or":
				r.Or(a, b)
			case "(*math/big.Int).And":
				r.And(a, b)
			default:
				r.AndNot(a, b)
			}
			return in.bigSet(args[0], BigVal{C: r}), true
		}
		return nil, false
	})
}
