package main

import (
	"bytes"
	"path/filepath"
	"strings"

	"golang.org/x/tools/go/ssa"
)

// Concrete-only models of string/byte helpers whose real bodies go through strings.Builder (unsafe.Pointer tricks)
// or assembly (internal/bytealg.Compare).
func init() {
	extraIntrinsics = append(extraIntrinsics, func(in *Interp, fn *ssa.Function, name string, args []V) (V, bool) {
		concStrs := func(v V) ([]string, bool) {
			sl, ok := v.(Slice)
			if !ok {
				return nil, false
			}
			out := make([]string, len(sl.A))
			for i, e := range sl.A {
				s, ok := e.(Str)
				if !ok || s.B != nil {
					return nil, false
				}
				out[i] = s.S
			}
			return out, true
		}
		concBytes := func(v V) ([]byte, bool) {
			sl, ok := v.(Slice)
			if !ok {
				return nil, false
			}
			out := make([]byte, len(sl.A))
			for i, e := range sl.A {
				b, ok := e.(Int)
				if !ok || b.S != nil {
					return nil, false
				}
				out[i] = byte(b.C)
			}
			return out, true
		}
		switch name {
		case "internal/bytealg.Compare":
			a, okA := concBytes(args[0])
			b, okB := concBytes(args[1])
			if okA && okB {
				return in.cInt(uint64(int64(bytes.Compare(a, b))), 64, true), true
			}
			panic(unsupported("bytes.Compare on symbolic bytes"))
		case "path/filepath.Join":
			if elems, ok := concStrs(args[0]); ok {
				return Str{S: filepath.Join(elems...)}, true
			}
			panic(unsupported("path/filepath.Join on symbolic strings"))
		case "strings.Join":
			sep, okS := args[1].(Str)
			if elems, ok := concStrs(args[0]); ok && okS && sep.B == nil {
				return Str{S: strings.Join(elems, sep.S)}, true
			}
			panic(unsupported("strings.Join on symbolic strings"))
		}
		return nil, false
	})
}
