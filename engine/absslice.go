package main

import (
	"go/types"

	"golang.org/x/tools/go/ssa"
)

// Abstract-content byte buffers (extension of AbsSlice, which so far only came from verifBlob): encoders that size their
// output buffer from symbolic message lengths and then append the messages can be executed without enumerating lengths.
//   - make([]byte, 0, cap) with a SYMBOLIC cap yields an empty abstract buffer (instead of forking over every cap value);
//   - append(x, y...) where x or y is abstract yields an abstract slice of length len(x)+len(y).
// Only len/cap of the result are defined: any read of the content ends the path UNSUPPORTED (never a wrong answer).
func (in *Interp) absMake(x *ssa.MakeSlice, n, c Int) (V, bool) {
	if c.S == nil || n.S != nil || n.C != 0 {
		return nil, false
	}
	if in.spec == nil || !in.spec.AbsMake {
		return nil, false // only harnesses that ask for it (message-size claims); others concretise the capacity
	}
	b, ok := x.Type().Underlying().(*types.Slice).Elem().Underlying().(*types.Basic)
	if !ok || b.Kind() != types.Uint8 {
		return nil, false
	}
	return AbsSlice{Len: in.cInt(0, 64, true)}, true
}

func (in *Interp) absLen(v V) (Int, bool) {
	switch x := v.(type) {
	case AbsSlice:
		return x.Len, true
	case Slice:
		return in.cInt(uint64(len(x.A)), 64, true), true
	case Str:
		return in.cInt(uint64(len(in.strBytes(x))), 64, true), true
	}
	return Int{}, false
}

func (in *Interp) absAppend(dst, src V) (V, bool) {
	_, da := dst.(AbsSlice)
	_, sa := src.(AbsSlice)
	if !da && !sa {
		return nil, false
	}
	dl, ok1 := in.absLen(dst)
	sl, ok2 := in.absLen(src)
	if !ok1 || !ok2 {
		panic(unsupported("append with an abstract-content slice and a non-byte operand"))
	}
	return AbsSlice{Len: in.intBinop(tokADD, dl, sl).(Int)}, true
}

// binary.AppendUvarint onto an abstract buffer: only the number of appended bytes matters (1 + one per further 7 bits);
// it is decided by solver-checked forks like the loop of the real body. Concrete buffers run the real source.
func init() {
	extraIntrinsics = append(extraIntrinsics, func(in *Interp, fn *ssa.Function, name string, args []V) (V, bool) {
		if name != "encoding/binary.AppendUvarint" {
			return nil, false
		}
		dst, ok := args[0].(AbsSlice)
		if !ok {
			return nil, false
		}
		x := args[1].(Int)
		n := 1
		for n < 10 {
			lim := in.cInt(uint64(1)<<uint(7*n), 64, false)
			if in.truth(in.intBinop(tokLSS, x, lim).(Bool)) {
				break
			}
			n++
		}
		return AbsSlice{Len: in.intBinop(tokADD, dst.Len, in.cInt(uint64(n), 64, true)).(Int)}, true
	})
}
