package main

func init() {
	register(PropSpec{ID: "C30", Harnesses: []HarnessSpec{
		{Name: "actions", Pkg: "api/jsonrpc", Files: []string{"api_jsonrpc/c30_actions.go"}, Entry: "VerifC30Actions",
			Reach: []string{"succeeding-list", "failing-list"},
			Stubs: []string{
				"api.VM = harness implementation over a map (ReadState / ImmutableState serve the same map the on-chain run uses); tracer/logger opaque",
				"actions = harness script actions (read / write / remove / require-present / bump over `keys` keys, outputs = what was read) behind the real codec.TypeParser; auth and balance handler = harness types, the sponsor balance lives under its own key prefix",
				"the handlers are called directly with Go structs: the JSON-RPC/HTTP transport (gorilla rpc, JSON reflection) is not executed",
			},
			Outside: []string{
				"more than maxActions actions, more than one operation per action in lists of several actions, more than `keys` keys, values longer than one byte",
				"the reference VM's Transfer action (its Bytes/outputs use the avalanchego reflection codec)",
				"transport-level behaviour of the endpoints (request decoding, error strings)",
			},
			Assumptions: []string{
				"actions declare (StateKeys) every key they touch with sufficient permissions (ExecuteActions scopes every action by its own declaration only, a transaction by the union)",
				"action behaviour does not depend on the action ID or the timestamp (SimulateActions passes ids.Empty and ExecuteActions CreateActionID(ids.Empty, i) where a transaction passes CreateActionID(txID, i); the APIs use time.Now())",
				"actions do not read the sponsor's balance (on chain the fee is deducted before the actions run, the APIs deduct nothing)",
			}},
	}})
}
