package main

import "math/big"

// INT encoding: equality of byte strings that contain complete byte decompositions of wider values.
//
// binary.BigEndian.AppendUint64(nil, x) produces eight bytes (x div 256^k) mod 256. Comparing two such encodings byte
// by byte (bytes.Equal, string ==, map keys) yields eight div/mod equalities, which is hopeless for the solver once x is
// a non-linear term. When a run of bytes on one side is the complete decomposition of one w-bit source (byte
// provenance, see `part`) and the same run on the other side is the decomposition of another source in the same byte
// order -- or is all constants -- the run is equal iff the two w-bit values are equal. Exact, not an approximation:
// both values lie in [0, 2^w).

// wholeSource: is bs[i:i+n] the complete decomposition of one 8n-bit source? order: +1 big-endian, -1 little-endian.
func (in *Interp) wholeSource(bs []V, i, n int) (src *Term, order int, ok bool) {
	if i+n > len(bs) {
		return nil, 0, false
	}
	for _, ord := range []int{1, -1} {
		var s *Term
		good := true
		for j := 0; j < n; j++ {
			b, isInt := bs[i+j].(Int)
			if !isInt || b.S == nil || b.W != 8 || len(b.Parts) != 1 || b.Parts[0].to != 0 {
				good = false
				break
			}
			want := j
			if ord == 1 {
				want = n - 1 - j
			}
			if b.Parts[0].from != want {
				good = false
				break
			}
			if s == nil {
				s = b.Parts[0].src
			} else if s != b.Parts[0].src {
				good = false
				break
			}
		}
		if good && s != nil && s.w == -1 && in.srcWidth[s] == 8*n {
			return s, ord, true
		}
	}
	return nil, 0, false
}

// constRun: bs[i:i+n] all concrete -> the value they encode in the given byte order.
func constRun(bs []V, i, n, order int) (*big.Int, bool) {
	v := new(big.Int)
	for j := 0; j < n; j++ {
		b, isInt := bs[i+j].(Int)
		if !isInt || b.S != nil {
			return nil, false
		}
		k := j
		if order == 1 {
			k = n - 1 - j
		}
		v.Or(v, new(big.Int).Lsh(new(big.Int).SetUint64(b.C&0xff), uint(8*k)))
	}
	return v, true
}

// bytesEqGrouped builds the equality of two equally long byte sequences, comparing complete decompositions as wholes.
// ok=false: nothing could be grouped (caller falls back to the plain byte-wise conjunction).
func (in *Interp) bytesEqGrouped(xb, yb []V) (*Term, bool) {
	grouped := false
	acc := in.ts.True()
	for i := 0; i < len(xb); {
		done := false
		for _, n := range []int{8, 4, 2} {
			sx, ox, okx := in.wholeSource(xb, i, n)
			sy, oy, oky := in.wholeSource(yb, i, n)
			var l, r *Term
			switch {
			case okx && oky && ox == oy:
				l, r = sx, sy
			case okx:
				if c, ok := constRun(yb, i, n, ox); ok {
					l, r = sx, in.ts.IntC(c)
				}
			case oky:
				if c, ok := constRun(xb, i, n, oy); ok {
					l, r = in.ts.IntC(c), sy
				}
			}
			if l != nil {
				acc = in.ts.Op("and", 0, acc, in.ts.Op("=", 0, l, r))
				i += n
				grouped, done = true, true
				break
			}
		}
		if !done {
			acc = in.ts.Op("and", 0, acc, in.bterm(in.eq(xb[i], yb[i])))
			i++
		}
	}
	return acc, grouped
}
