package main

import (
	"fmt"
	"go/token"
	"go/types"

	"golang.org/x/tools/go/ssa"
)

// ---- indexing ----

// selIndex resolves an index into [0,n): concrete or forks over feasible values.
func (in *Interp) selIndex(i Int, n int, what string) int {
	if i.S == nil {
		v := int(signExt(i.C, i.W))
		if !i.Signed {
			if i.C > uint64(1<<62) {
				v = -1
			} else {
				v = int(i.C)
			}
		}
		if v < 0 || v >= n {
			panic(goPanic{Str{S: fmt.Sprintf("index out of range [%d] with length %d", v, n)}})
		}
		return v
	}
	if in.intMode {
		return in.selIndexFork(i, n, what)
	}
	return in.selIndexFork(i, n, what)
}

// inRange forks on the bounds check only and returns the index term widened to 64 bits.
func (in *Interp) inRange(i Int, n int) *Term {
	var idx *Term
	if in.intMode {
		idx = i.S
		oob := in.ts.Op("or", 0, in.ts.Op("<", 0, idx, in.ts.IntU(0)), in.ts.Op(">=", 0, idx, in.ts.IntU(uint64(n))))
		if in.truth(in.mkBool(oob)) {
			panic(goPanic{Str{S: "index out of range (symbolic)"}})
		}
		return idx
	}
	idx = i.S
	if i.W < 64 {
		if i.Signed {
			idx = in.ts.Op(fmt.Sprintf("(_ sign_extend %d)", 64-i.W), 64, idx)
		} else {
			idx = in.ts.Op(fmt.Sprintf("(_ zero_extend %d)", 64-i.W), 64, idx)
		}
	}
	oob := in.ts.Op("bvuge", 0, idx, in.ts.ConstU(uint64(n), 64))
	if in.truth(in.mkBool(oob)) {
		panic(goPanic{Str{S: "index out of range (symbolic)"}})
	}
	return idx
}

// iteLookup builds a balanced ite tree selecting elems[idx]; all elems must be Ints of width w.
func (in *Interp) iteLookup(idx *Term, elems []V, lo, hi int) *Term {
	if hi-lo == 1 {
		e := elems[lo].(Int)
		if in.intMode {
			return in.iterm(e)
		}
		return in.term(e)
	}
	mid := (lo + hi) / 2
	var c *Term
	if in.intMode {
		c = in.ts.Op("<", 0, idx, in.ts.IntU(uint64(mid)))
	} else {
		c = in.ts.Op("bvult", 0, idx, in.ts.ConstU(uint64(mid), 64))
	}
	w := elems[lo].(Int).W
	if in.intMode {
		w = -1
	}
	return in.ts.Op("ite", w, c, in.iteLookup(idx, elems, lo, mid), in.iteLookup(idx, elems, mid, hi))
}

func allInts(elems []V) bool {
	for _, e := range elems {
		if _, ok := e.(Int); !ok {
			return false
		}
	}
	return len(elems) > 0
}

// lutRec remembers that a term is table[idx] for a constant table (idx widened to 64 bits / Int): a later lookup
// indexed by that term composes the two tables instead of nesting two ite trees.
type lutRec struct {
	idx   *Term
	table []uint64
}

func (in *Interp) symLoad(i Int, elems []V) (V, bool) {
	if i.S == nil || !allInts(elems) || len(elems) > 4096 {
		return nil, false
	}
	e0 := elems[0].(Int)
	allConst := true
	for _, e := range elems {
		if e.(Int).S != nil {
			allConst = false
			break
		}
	}
	if rec := in.luts[i.S]; rec != nil && allConst && !in.intMode {
		// compose: elems[table[k]]
		nt := make([]uint64, len(rec.table))
		ident := true
		for k, tv := range rec.table {
			if tv >= uint64(len(elems)) {
				// some value of the inner table is out of range for this table: fall back to the generic path
				nt = nil
				break
			}
			nt[k] = elems[tv].(Int).C
			if nt[k] != uint64(k) {
				ident = false
			}
		}
		if nt != nil {
			if ident {
				t := rec.idx
				if e0.W < 64 {
					t = in.ts.Op(fmt.Sprintf("(_ extract %d 0)", e0.W-1), e0.W, t)
				}
				return in.mkInt(t, e0.W, e0.Signed), true
			}
			vals := make([]V, len(nt))
			for k := range nt {
				vals[k] = in.cInt(nt[k], e0.W, e0.Signed)
			}
			t := in.iteLookup(rec.idx, vals, 0, len(vals))
			if t.op != "const" {
				in.noteLut(t, rec.idx, nt)
			}
			return in.mkInt(t, e0.W, e0.Signed), true
		}
	}
	var idx *Term
	if !i.Signed && i.W < 63 && (uint64(1)<<uint(i.W)) <= uint64(len(elems)) && !in.intMode {
		idx = in.ts.Op(fmt.Sprintf("(_ zero_extend %d)", 64-i.W), 64, i.S) // cannot be out of range
	} else {
		idx = in.inRange(i, len(elems))
	}
	t := in.iteLookup(idx, elems, 0, len(elems))
	if in.intMode {
		return in.symI(t, e0.W, e0.Signed, 0, nil), true
	}
	if allConst && t.op != "const" {
		tab := make([]uint64, len(elems))
		for k, e := range elems {
			tab[k] = e.(Int).C
		}
		in.noteLut(t, idx, tab)
	}
	return in.mkInt(t, e0.W, e0.Signed), true
}

func (in *Interp) noteLut(t, idx *Term, table []uint64) {
	if in.luts == nil {
		in.luts = map[*Term]*lutRec{}
	}
	in.luts[t] = &lutRec{idx: idx, table: table}
}

// SymRef is the address of an array/slice element selected by a symbolic index; it can only be loaded from.
type SymRef struct {
	elems []V
	idx   Int
}

func onlyLoaded(x *ssa.IndexAddr) bool {
	refs := x.Referrers()
	if refs == nil || len(*refs) == 0 {
		return false
	}
	for _, r := range *refs {
		u, ok := r.(*ssa.UnOp)
		if !ok || u.Op != token.MUL {
			if _, isDbg := r.(*ssa.DebugRef); isDbg {
				continue
			}
			return false
		}
	}
	return true
}

func (in *Interp) selIndexFork(i Int, n int, what string) int {
	// options 0..n-1 in range, n = out of range
	opt := in.ex.take("idx:"+what, n+1, func(k int) *Term {
		if in.intMode {
			if k < n {
				return in.ts.Op("=", 0, i.S, in.ts.IntU(uint64(k)))
			}
			return in.ts.Op("or", 0, in.ts.Op("<", 0, i.S, in.ts.IntU(0)), in.ts.Op(">=", 0, i.S, in.ts.IntU(uint64(n))))
		}
		if k < n {
			return in.ts.Op("=", 0, i.S, in.ts.ConstU(uint64(k), i.W))
		}
		idx := i.S
		if i.W < 64 {
			if i.Signed {
				idx = in.ts.Op(fmt.Sprintf("(_ sign_extend %d)", 64-i.W), 64, idx)
			} else {
				idx = in.ts.Op(fmt.Sprintf("(_ zero_extend %d)", 64-i.W), 64, idx)
			}
		}
		return in.ts.Op("bvuge", 0, idx, in.ts.ConstU(uint64(n), 64))
	})
	if opt == n {
		panic(goPanic{Str{S: "index out of range (symbolic)"}})
	}
	return opt
}

func (in *Interp) indexAddr(fr *frame, x *ssa.IndexAddr) V {
	base := in.get(fr, x.X)
	idx := in.get(fr, x.Index).(Int)
	switch b := base.(type) {
	case Slice:
		if idx.S != nil && allInts(b.A) && len(b.A) <= 4096 && onlyLoaded(x) {
			return SymRef{elems: b.A, idx: idx}
		}
		k := in.selIndex(idx, len(b.A), "slice")
		return Ptr(&b.A[k])
	case Ptr: // pointer to array
		if b == nil {
			panic(goPanic{Str{S: "nil array pointer"}})
		}
		arr := (*b).(Array)
		if idx.S != nil && allInts(arr) && len(arr) <= 4096 && onlyLoaded(x) {
			return SymRef{elems: arr, idx: idx}
		}
		k := in.selIndex(idx, len(arr), "array")
		return Ptr(&arr[k])
	}
	panic(unsupported(fmt.Sprintf("indexaddr on %T", base)))
}

func (in *Interp) index(fr *frame, x *ssa.Index) V {
	base := in.get(fr, x.X)
	idx := in.get(fr, x.Index).(Int)
	switch b := base.(type) {
	case Array:
		if v, ok := in.symLoad(idx, b); ok {
			return v
		}
		k := in.selIndex(idx, len(b), "array")
		return copyVal(b[k])
	case Str:
		bs := in.strBytes(b)
		if v, ok := in.symLoad(idx, bs); ok {
			return v
		}
		k := in.selIndex(idx, len(bs), "string")
		return bs[k]
	}
	panic(unsupported(fmt.Sprintf("index on %T", base)))
}

func (in *Interp) slice(fr *frame, x *ssa.Slice) V {
	base := in.get(fr, x.X)
	var a []V
	isStr := false
	var strv Str
	switch b := base.(type) {
	case Slice:
		a = b.A
		if b.Nil && x.Low == nil && x.High == nil {
			return b
		}
	case Ptr:
		if b == nil {
			panic(goPanic{Str{S: "slice of nil array pointer"}})
		}
		a = []V((*b).(Array))
	case Str:
		isStr = true
		strv = b
		a = in.strBytes(b)
	default:
		panic(unsupported(fmt.Sprintf("slice of %T", base)))
	}
	lo, hi, mx := 0, len(a), cap(a)
	if x.Low != nil {
		lo = in.concInt(in.get(fr, x.Low).(Int), cap(a), "slice-low")
	}
	if x.High != nil {
		hi = in.concInt(in.get(fr, x.High).(Int), cap(a), "slice-high")
	}
	if x.Max != nil {
		mx = in.concInt(in.get(fr, x.Max).(Int), cap(a), "slice-max")
	}
	limit := cap(a)
	if isStr {
		limit = len(a)
	}
	if lo < 0 || hi < lo || hi > limit || mx > cap(a) || hi > mx {
		panic(goPanic{Str{S: fmt.Sprintf("slice bounds out of range [%d:%d] with capacity %d", lo, hi, limit)}})
	}
	if isStr {
		if strv.B == nil {
			return Str{S: strv.S[lo:hi]}
		}
		return in.bytesToStr(a[lo:hi])
	}
	return Slice{A: a[lo:hi:mx]}
}

// ---- maps ----

func (in *Interp) mapFind(m *MapV, k V) int {
	if m == nil {
		return -1
	}
	for i, ek := range m.Keys {
		if in.truth(in.eq(ek, k)) {
			return i
		}
	}
	return -1
}

func (in *Interp) mapSet(m *MapV, k, v V) {
	if i := in.mapFind(m, k); i >= 0 {
		m.Vals[i] = v
		return
	}
	m.Keys = append(m.Keys, copyVal(k))
	m.Vals = append(m.Vals, v)
}

func (in *Interp) mapDelete(m *MapV, k V) {
	if i := in.mapFind(m, k); i >= 0 {
		m.Keys = append(m.Keys[:i:i], m.Keys[i+1:]...)
		m.Vals = append(m.Vals[:i:i], m.Vals[i+1:]...)
	}
}

func (in *Interp) lookup(fr *frame, x *ssa.Lookup) V {
	base := in.get(fr, x.X)
	switch b := base.(type) {
	case *MapV:
		k := in.get(fr, x.Index)
		i := in.mapFind(b, k)
		var v V
		if i >= 0 {
			v = copyVal(b.Vals[i])
		} else {
			v = zero(x.X.Type().Underlying().(*types.Map).Elem())
		}
		if x.CommaOk {
			return Tuple{v, Bool{C: i >= 0}}
		}
		return v
	case Str:
		bs := in.strBytes(b)
		if v, ok := in.symLoad(in.get(fr, x.Index).(Int), bs); ok {
			return v
		}
		k := in.selIndex(in.get(fr, x.Index).(Int), len(bs), "string")
		return bs[k]
	}
	panic(unsupported(fmt.Sprintf("lookup on %T", base)))
}

type iter struct {
	m    *MapV
	keys []V
	vals []V
	pos  int
	str  []V
}

func (in *Interp) rangeIter(v V) V {
	switch x := v.(type) {
	case *MapV:
		it := &iter{m: x}
		if x != nil {
			it.keys = append([]V{}, x.Keys...)
			it.vals = append([]V{}, x.Vals...)
		}
		return it
	case Str:
		if x.B != nil {
			panic(unsupported("range over symbolic string"))
		}
		return &iter{str: []V{x}}
	}
	panic(unsupported(fmt.Sprintf("range over %T", v)))
}

func (in *Interp) next(it *iter, x *ssa.Next) V {
	if x.IsString {
		panic(unsupported("string range"))
	}
	for it.pos < len(it.keys) {
		k, v := it.keys[it.pos], it.vals[it.pos]
		it.pos++
		// skip entries deleted during iteration
		still := false
		for _, ck := range it.m.Keys {
			if &ck == &k {
				still = true
			}
		}
		_ = still
		idx := -1
		for i := range it.m.Keys {
			if sameKeyConcrete(it.m.Keys[i], k) {
				idx = i
				break
			}
		}
		if idx < 0 {
			continue
		}
		v = it.m.Vals[idx]
		return Tuple{Bool{C: true}, copyVal(k), copyVal(v)}
	}
	mt := x.Iter.(*ssa.Range).X.Type().Underlying().(*types.Map)
	return Tuple{Bool{C: false}, zero(mt.Key()), zero(mt.Elem())}
}

// sameKeyConcrete compares keys structurally without forking (identity of terms).
func sameKeyConcrete(a, b V) bool {
	switch x := a.(type) {
	case Int:
		y, ok := b.(Int)
		return ok && x.S == y.S && x.C == y.C
	case Str:
		y, ok := b.(Str)
		if !ok {
			return false
		}
		if x.B == nil && y.B == nil {
			return x.S == y.S
		}
		if len(x.B) != len(y.B) {
			return false
		}
		for i := range x.B {
			if !sameKeyConcrete(x.B[i], y.B[i]) {
				return false
			}
		}
		return true
	case Array:
		y, ok := b.(Array)
		if !ok || len(x) != len(y) {
			return false
		}
		for i := range x {
			if !sameKeyConcrete(x[i], y[i]) {
				return false
			}
		}
		return true
	case Struct:
		y, ok := b.(Struct)
		if !ok || len(x) != len(y) {
			return false
		}
		for i := range x {
			if !sameKeyConcrete(x[i], y[i]) {
				return false
			}
		}
		return true
	case Bool:
		y, ok := b.(Bool)
		return ok && x == y
	case Ptr:
		y, ok := b.(Ptr)
		return ok && x == y
	case Iface:
		y, ok := b.(Iface)
		return ok && x.T == y.T && sameKeyConcrete(x.V, y.V)
	}
	return false
}

// ---- builtins ----

func (in *Interp) builtin(fr *frame, b *ssa.Builtin, c *ssa.CallCommon, args []V) V {
	switch b.Name() {
	case "len":
		switch x := args[0].(type) {
		case AbsSlice:
			return x.Len
		case Slice:
			return in.cInt(uint64(len(x.A)), 64, true)
		case Str:
			if x.B != nil {
				return in.cInt(uint64(len(x.B)), 64, true)
			}
			return in.cInt(uint64(len(x.S)), 64, true)
		case *MapV:
			if x == nil {
				return in.cInt(0, 64, true)
			}
			return in.cInt(uint64(len(x.Keys)), 64, true)
		case Array:
			return in.cInt(uint64(len(x)), 64, true)
		case Ptr:
			return in.cInt(uint64(len((*x).(Array))), 64, true)
		}
	case "cap":
		switch x := args[0].(type) {
		case AbsSlice:
			return x.Len
		case Slice:
			return in.cInt(uint64(cap(x.A)), 64, true)
		case Array:
			return in.cInt(uint64(len(x)), 64, true)
		}
	case "append":
		dst := args[0].(Slice)
		switch src := args[1].(type) {
		case Slice:
			if len(src.A) == 0 {
				if dst.Nil && src.Nil {
					return dst
				}
				return Slice{A: dst.A}
			}
			elems := make([]V, len(src.A))
			for i, e := range src.A {
				elems[i] = copyVal(e)
			}
			return Slice{A: append(dst.A, elems...)}
		case Str:
			return Slice{A: append(dst.A, in.strBytes(src)...)}
		}
	case "copy":
		dst := args[0].(Slice)
		var src []V
		switch s := args[1].(type) {
		case Slice:
			src = s.A
		case Str:
			src = in.strBytes(s)
		}
		n := len(dst.A)
		if len(src) < n {
			n = len(src)
		}
		tmp := make([]V, n)
		for i := 0; i < n; i++ {
			tmp[i] = copyVal(src[i])
		}
		for i := 0; i < n; i++ {
			storeInto(&dst.A[i], tmp[i])
		}
		return in.cInt(uint64(n), 64, true)
	case "delete":
		if m := args[0].(*MapV); m != nil {
			in.mapDelete(m, args[1])
		}
		return nil
	case "clear":
		switch x := args[0].(type) {
		case *MapV:
			if x != nil {
				x.Keys, x.Vals = nil, nil
			}
		}
		return nil
	case "min", "max":
		acc := args[0]
		for _, a := range args[1:] {
			var lt Bool
			if b.Name() == "min" {
				lt = in.intBinop(tokLSS, a.(Int), acc.(Int)).(Bool)
			} else {
				lt = in.intBinop(tokGTR, a.(Int), acc.(Int)).(Bool)
			}
			if in.truth(lt) {
				acc = a
			}
		}
		return acc
	case "print", "println":
		return nil
	case "close":
		in.sched.closeCh(args[0].(*ChanV))
		return nil
	case "recover":
		if fr.panicking != nil {
			p := fr.panicking
			fr.panicking = nil
			return p.v
		}
		return Iface{}
	}
	panic(unsupported("builtin " + b.Name() + fmt.Sprintf(" %T", args[0])))
}

func (in *Interp) doSelect(fr *frame, x *ssa.Select) V {
	s := in.sched
	g := s.cur
	type st struct {
		ch   *ChanV
		send bool
		val  V
	}
	var states []st
	var objs []any
	for _, ss := range x.States {
		c, _ := in.get(fr, ss.Chan).(*ChanV)
		e := st{ch: c, send: ss.Dir == types.SendOnly}
		if e.send {
			e.val = in.get(fr, ss.Send)
		}
		states = append(states, e)
		if c != nil {
			objs = append(objs, c)
		}
	}
	if len(objs) == 0 {
		objs = []any{g}
	}
	ready := func() []int {
		var r []int
		for i, e := range states {
			if e.ch == nil {
				continue
			}
			if e.send {
				if e.ch.closed || len(e.ch.buf) < e.ch.cap || e.ch.recvWaiting > 0 {
					r = append(r, i)
				}
			} else if e.ch.recvReady() {
				r = append(r, i)
			}
		}
		return r
	}
	if !x.Blocking {
		s.visible(objs, "select (non-blocking)", nil)
		if len(ready()) == 0 {
			return in.selectResult(x, -1, nil, false)
		}
	} else {
		waiting := len(ready()) == 0
		if waiting {
			for _, e := range states {
				if e.ch != nil && !e.send {
					e.ch.recvWaiting++
				}
			}
		}
		s.visible(objs, "select", func() bool { return len(ready()) > 0 })
		if waiting {
			for _, e := range states {
				if e.ch != nil && !e.send {
					e.ch.recvWaiting--
				}
			}
		}
	}
	r := ready()
	k := r[0]
	if len(r) > 1 {
		k = r[in.ex.take("select", len(r), nil)]
	}
	e := states[k]
	if e.send {
		if e.ch.closed {
			panic(goPanic{Str{S: "send on closed channel"}})
		}
		if len(e.ch.buf) < e.ch.cap {
			e.ch.buf = append(e.ch.buf, e.val)
		} else {
			w := &sendW{g: g, val: e.val}
			e.ch.sendq = append(e.ch.sendq, w)
			s.visible([]any{e.ch}, "select send (waiting for receiver)", func() bool { return w.done })
		}
		return in.selectResult(x, k, nil, false)
	}
	v, ok := e.ch.take()
	return in.selectResult(x, k, v, ok)
}

func (in *Interp) selectResult(x *ssa.Select, idx int, v V, ok bool) V {
	t := Tuple{in.cInt(uint64(int64(idx)), 64, true), Bool{C: ok}}
	for i, ss := range x.States {
		if ss.Dir == types.RecvOnly {
			if i == idx {
				t = append(t, v)
			} else {
				t = append(t, zero(ss.Chan.Type().Underlying().(*types.Chan).Elem()))
			}
		}
	}
	return t
}
