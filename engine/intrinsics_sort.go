package main

import (
	"golang.org/x/tools/go/ssa"
)

// sort.Slice / sort.SliceStable use reflectlite.Swapper (unsafe/reflect) which the interpreter does not execute.
// Both are modelled by the insertion sort the real implementations run on short inputs (pdqsort: n <= 12,
// stable: n <= 20 = one block): identical sequence of less() calls and swaps, hence the identical resulting order,
// also among elements that compare equal. Longer slices end the path UNSUPPORTED.
func init() {
	extraIntrinsics = append(extraIntrinsics, func(in *Interp, fn *ssa.Function, name string, args []V) (V, bool) {
		var maxN int
		switch name {
		case "sort.Slice":
			maxN = 12
		case "sort.SliceStable":
			maxN = 20
		default:
			return nil, false
		}
		ifc, ok := args[0].(Iface)
		if !ok || ifc.T == nil {
			panic(goPanic{Str{S: "sort: nil slice interface"}})
		}
		sl, ok := ifc.V.(Slice)
		if !ok {
			panic(unsupported(name + " on a non-slice value"))
		}
		n := len(sl.A)
		if n > maxN {
			panic(unsupported(name + " on more elements than the insertion-sort range of the real implementation"))
		}
		less := args[1]
		for i := 1; i < n; i++ {
			for j := i; j > 0; j-- {
				r := in.callValue(less, []V{in.cInt(uint64(j), 64, true), in.cInt(uint64(j-1), 64, true)})
				if !in.truth(r.(Bool)) {
					break
				}
				sl.A[j], sl.A[j-1] = sl.A[j-1], sl.A[j]
			}
		}
		return nil, true
	})
}
