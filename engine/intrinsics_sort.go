package main

import (
	"golang.org/x/tools/go/ssa"
)

// sort.Slice / sort.SliceStable use reflection (reflectlite.Swapper) in their real bodies. They are modelled by a stable
// insertion sort driven by the caller's real `less` closure (each comparison with symbolic operands is a solver-checked
// fork). For SliceStable the result is uniquely determined by `less` (strict weak order), so this agrees with the real
// implementation; for sort.Slice the order of equal elements is unspecified in Go and only this (stable) order is explored.
func init() {
	extraIntrinsics = append(extraIntrinsics, func(in *Interp, fn *ssa.Function, name string, args []V) (V, bool) {
		if name != "sort.SliceStable" && name != "sort.Slice" {
			return nil, false
		}
		ifc, ok := args[0].(Iface)
		if !ok {
			return nil, false
		}
		sl, ok := ifc.V.(Slice)
		if !ok {
			panic(unsupported("sort.Slice on non-slice"))
		}
		less := args[1]
		n := len(sl.A)
		ci := func(k int) V { return in.cInt(uint64(k), 64, true) }
		for i := 1; i < n; i++ {
			for j := i; j > 0; j-- {
				r := in.callValue(less, []V{ci(j), ci(j - 1)}).(Bool)
				if !in.truth(r) {
					break
				}
				a, b := copyVal(sl.A[j]), copyVal(sl.A[j-1])
				storeInto(&sl.A[j], b)
				storeInto(&sl.A[j-1], a)
			}
		}
		return nil, true
	})
}
