package main

import "golang.org/x/tools/go/ssa"

// maps.clone (runtime-linked, bodyless): shallow copy of a map held in an `any`.
func init() {
	extraIntrinsics = append(extraIntrinsics, func(in *Interp, fn *ssa.Function, name string, args []V) (V, bool) {
		if name != "maps.clone" {
			return nil, false
		}
		ifc, ok := args[0].(Iface)
		if !ok {
			return nil, false
		}
		m, ok := ifc.V.(*MapV)
		if !ok {
			return nil, false
		}
		if m == nil {
			return ifc, true
		}
		c := &MapV{KT: m.KT, VT: m.VT, Keys: append([]V{}, m.Keys...), Vals: make([]V, len(m.Vals))}
		for i, v := range m.Vals {
			c.Vals[i] = copyVal(v)
		}
		return Iface{T: ifc.T, V: c}, true
	})
}
