package main

func init() {
	register(PropSpec{ID: "C06", Harnesses: []HarnessSpec{
		{Name: "supply", Mod: "examples/morpheusvm", Pkg: "actions", Files: []string{"morpheus_actions/c06_supply.go"}, Entry: "VerifC06Supply", IntMode: true, WordByteEq: true,
			Reach: []string{"success", "failure", "pre-execute-rejected", "second-transaction"},
			Redirects: map[string]string{
				"(*github.com/ava-labs/hypersdk/examples/morpheusvm/actions.Transfer).Bytes":       "c06TransferBytes",
				"(*github.com/ava-labs/hypersdk/examples/morpheusvm/actions.TransferResult).Bytes": "c06ResultBytes",
			},
			Stubs: []string{"(*Transfer).Bytes and (*TransferResult).Bytes (avalanchego reflection codec) are replaced in the engine by hand-written encoders of the same layout (the native replay runs the real ones; the transaction size is compared engine-vs-native on sampled paths)",
				"auth = harness type with a fixed actor that is also the sponsor; signatures are not part of this property"},
			Outside: []string{"more than maxTxs transactions per block, more than maxActionsSingleTx transfers in a one-transaction block / maxActionsPerTxInMultiTxBlocks otherwise", "more than 3 accounts; sponsors other than the actor", "memos", "the block-level bookkeeping of chain.Processor around the transactions (prefetching, fee manager consumption, parallel execution: C01/C08)"},
		},
	}})
}
