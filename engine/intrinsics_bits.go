package main

import (
	"math/bits"

	"golang.org/x/tools/go/ssa"
)

// math/bits.Len64 / Len32 / Len on a symbolic operand: the real body forks on three thresholds and then indexes a
// 256-entry table with an extracted byte. Modelled without forks as the chain
//   ite(x < 2^0, 0, ite(x < 2^1, 1, ... ite(x < 2^(w-1), w-1, w)))   (x < 2^0 means x == 0).
// Concrete operands run the real source.
func init() {
	extraIntrinsics = append(extraIntrinsics, func(in *Interp, fn *ssa.Function, name string, args []V) (V, bool) {
		if in.spec != nil && in.spec.LenAsSum {
			return nil, false // this harness was tuned with the sum model of intrinsics_bits_a.go
		}
		var w int
		switch name {
		case "math/bits.Len64", "math/bits.Len":
			w = 64
		case "math/bits.Len32":
			w = 32
		default:
			return nil, false
		}
		x := args[0].(Int)
		if x.S == nil {
			return in.cInt(uint64(bits.Len64(x.C&maskU(w))), 64, true), true
		}
		if in.intMode {
			t := in.ts.IntU(uint64(w))
			for k := w - 1; k >= 0; k-- {
				t = in.ts.Op("ite", -1, in.ts.Op("<", 0, x.S, in.ts.IntC(pow2(k))), in.ts.IntU(uint64(k)), t)
			}
			return in.symI(t, 64, true, 0, nil), true
		}
		t := in.ts.ConstU(uint64(w), 64)
		for k := w - 1; k >= 0; k-- {
			t = in.ts.Op("ite", 64, in.ts.Op("bvult", 0, x.S, in.ts.ConstU(uint64(1)<<uint(k), x.W)), in.ts.ConstU(uint64(k), 64), t)
		}
		return in.mkInt(t, 64, true), true
	})
}
