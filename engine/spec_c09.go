package main

func init() {
	files := []string{"validitywindow/c09_replay.go"}
	register(PropSpec{ID: "C09", Harnesses: []HarnessSpec{
		{Name: "linear", Pkg: "internal/validitywindow", Files: files, Entry: "VerifC09Linear", IntMode: true, Reach: []string{"rejected", "verified-with-txs", "accept", "restart"}},
		{Name: "forks", Pkg: "internal/validitywindow", Files: files, Entry: "VerifC09Forks", IntMode: true, Reach: []string{"rejected", "verified-with-txs", "accept"}},
		{Name: "inblock", Pkg: "internal/validitywindow", Files: files, Entry: "VerifC09InBlock", IntMode: true, Reach: []string{"rejected", "accept", "restart"}},
	}})
}
