package main

func init() {
	files := []string{"validitywindow/c09_replay.go"}
	stubs := []string{
		"transactions = harness items {concrete distinct ID, symbolic expiry}; blocks = harness ExecutionBlock {concrete ID/parent/height, symbolic timestamp, list of transactions}",
		"ChainIndex = harness table serving processing (verified, not rejected) and accepted blocks, like vm.GetExecutionBlock",
		"validity window length = one symbolic constant; tracer/logger opaque",
	}
	assume := []string{
		"every transaction of a block is valid at inclusion: block timestamp <= expiry <= block timestamp + window (enforced by PreExecute, C10); expiry multiple-of-1000 not required",
		"block timestamps are >= 0, < 2^50 and do not decrease along a chain, except that the child of genesis may be earlier than the genesis header (C11 known finding); window < 2^40",
		"snowman order: verify only children of processing or last accepted blocks, accept only a processing child of the last accepted block; a restart forgets processing blocks and repopulates from the last accepted block with all accepted blocks available",
	}
	outside := []string{
		"more blocks / events / transactions / restarts than the stated bounds",
		"validity window changing over time (rule upgrades)",
		"state-sync backfill (Syncer, AcceptHistorical: C22), chain index missing accepted blocks inside the window after restart",
		"the mempool handing one transaction twice to one BuildBlock call (C23)",
	}
	register(PropSpec{ID: "C09", Harnesses: []HarnessSpec{
		{Name: "linear", Pkg: "internal/validitywindow", Files: files, Entry: "VerifC09Linear", IntMode: true, Reach: []string{"rejected", "accept", "restart", "repeat-attempt"},
			Stubs: stubs, Outside: append([]string{"expiry 0 (own harness: expiry-zero)", "blocks without repeats are taken as verified without asking the verifier (the forks harness asks it for every block)"}, outside...), Assumptions: assume},
		{Name: "expiry-zero", Pkg: "internal/validitywindow", Files: files, Entry: "VerifC09ExpiryZero", IntMode: true, Reach: []string{"accept", "restart", "repeat-attempt"},
			Stubs: stubs, Outside: outside, Assumptions: assume},
		{Name: "forks", Pkg: "internal/validitywindow", Files: files, Entry: "VerifC09Forks", IntMode: true, Reach: []string{"rejected", "verified-with-txs", "accept", "repeat-attempt"},
			Stubs: stubs, Outside: append([]string{"expiry 0 (own harness)", "restarts (linear harness)", "histories continuing after a block that repeats a transaction was offered"}, outside...), Assumptions: assume},
		{Name: "concurrent", Pkg: "internal/validitywindow", Files: files, Entry: "VerifC09Concurrent", IntMode: true, Sched: true, Preempt: [2]int{2, 3},
			Stubs: stubs, Assumptions: assume, Outside: []string{"more than one block being accepted while one child is verified / one builder question is asked", "schedules beyond the preemption bound"}},
	}})
}
