package main

// INT mode: equality of byte strings that contain byte-wise decompositions of 64-bit values (binary.BigEndian /
// LittleEndian encodings). Comparing eight `(mod (div s 2^k) 256)` terms pairwise is a hard non-linear-looking LIA
// problem; when a window of eight bytes on each side is exactly the decomposition of one 64-bit source (or constant),
// the eight equalities are equivalent to one equality of the sources.

// wordAt reports whether bs[i:i+8] is the full decomposition of one 64-bit source (big=true: big endian) or constant.
func (in *Interp) wordAt(bs []V, i int, big bool) (*Term, bool) {
	var src *Term
	var cval uint64
	conc := 0
	for j := 0; j < 8; j++ {
		b, ok := bs[i+j].(Int)
		if !ok {
			return nil, false
		}
		idx := j
		if big {
			idx = 7 - j
		}
		if b.S == nil {
			conc++
			cval |= (b.C & 0xff) << (8 * uint(idx))
			continue
		}
		if len(b.Parts) != 1 || b.Parts[0].to != 0 || b.Parts[0].from != idx {
			return nil, false
		}
		if src == nil {
			src = b.Parts[0].src
		} else if src != b.Parts[0].src {
			return nil, false
		}
	}
	if conc == 8 {
		return in.ts.IntU(cval), true
	}
	if conc != 0 || src == nil || src.w != -1 || in.srcWidth[src] != 64 {
		return nil, false
	}
	return src, true
}

// eqByteSeqI builds the equality of two equally long byte sequences, word-wise where possible.
func (in *Interp) eqByteSeqI(xb, yb []V) *Term {
	acc := in.ts.True()
	for i := 0; i < len(xb); {
		if i+8 <= len(xb) {
			done := false
			for _, big := range []bool{true, false} {
				xs, ok1 := in.wordAt(xb, i, big)
				ys, ok2 := in.wordAt(yb, i, big)
				if ok1 && ok2 && !(xs.op == "iconst" && ys.op == "iconst") {
					acc = in.ts.Op("and", 0, acc, in.ts.Op("=", 0, xs, ys))
					i += 8
					done = true
					break
				}
			}
			if done {
				continue
			}
		}
		acc = in.ts.Op("and", 0, acc, in.bterm(in.eq(xb[i], yb[i])))
		i++
	}
	return acc
}
