package main

func init() {
	register(PropSpec{ID: "C02", Harnesses: []HarnessSpec{
		{Name: "build-verify", Pkg: "chain", Files: []string{"chain/common.go", "chain/c01_parallel.go", "chain/c02_build_verify.go"}, Entry: "VerifC02", Sched: true, Preempt: [2]int{0, 0},
			Reach:       []string{"built", "some-left-out", "all-included"},
			Stubs:       []string{"the mempool is a harness that streams its transactions in one batch; replay protection is a stub that reports no repeats (C09)", "merkledb.View is a map-backed view whose root is its generation number (stands for a content hash); signature workers are SerialWorkers with no batch engines (C16)", "actions/auth/balance handler/rules are the harness types of harness/chain/common.go; tracer/metrics/logger opaque", "time.Now is the zero instant in the engine and the wall clock natively: transaction expiries are set relative to it"},
			Assumptions: []string{"goroutines switch only at synchronisation operations"},
			Outside:     []string{"more than maxTxs mempool transactions, several stream batches / the stream prefetch goroutine (needs > 128 transactions), TargetBuildDuration expiring mid-build", "real merkledb roots", "preemptive schedules of the builder's executor (the executor itself is C08/C01)"}},
	}})
}
