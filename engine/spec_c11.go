package main

func init() {
	files := []string{"chain/common.go", "chain/c11_parent.go"}
	redirects := map[string]string{"github.com/ava-labs/hypersdk/chain.c11BaseView": "c11ModelBase"}
	common := []string{
		"rules = harness rules with symbolic MinBlockGap/MinEmptyBlockGap and fee targets 0 (the fee step keeps the price; fee market = C13); metadata manager/balance handler = harness types; metrics, tracer, logger opaque",
	}
	viewStub := "state database: the real merkledb over memdb in the native replay, a map model of a view in the engine (GetValue, NewView, root = content hash)"
	assume := []string{"parent height < 2^63, parent timestamp in [0, 2^62), gaps in [0, 2^40) (no wrap-around in parent+1 / parent+gap)"}
	outside := []string{
		"Processor.Execute as a whole (signature job, executor, fetcher, transaction execution): that it runs createBlockContext and verifyParentRoot and aborts on their errors is by inspection, not executed",
		"the exact FutureBound comparison (the code reads the wall clock itself; only blocks an hour beyond it are shown to be refused)",
		"Builder.BuildBlock beyond its first timestamp test (the empty-block gap test at its end needs the whole builder)",
	}
	register(PropSpec{ID: "C11", Harnesses: []HarnessSpec{
		{Name: "ordinary", Pkg: "chain", Files: files, Entry: "VerifC11Ordinary", Reach: []string{"accepted", "rejected"},
			Stubs: append([]string{"parent post-state = map written by the real writeBlockContext for a symbolic parent (height, timestamp)"}, common...), Assumptions: assume, Outside: outside},
		{Name: "genesis", Pkg: "chain", Files: files, Entry: "VerifC11Genesis", Reach: []string{"accepted", "rejected"}, Redirects: redirects,
			Stubs: append([]string{viewStub, "genesis = harness genesis without allocations through the real NewGenesisCommit; time.Date(...).UnixMilli() computed exactly"}, common...), Assumptions: assume[1:], Outside: outside},
		{Name: "root", Pkg: "chain", Files: files, Entry: "VerifC11Root", Reach: []string{"accepted", "rejected"}, Redirects: redirects,
			Stubs: append([]string{viewStub}, common...), Outside: append([]string{"claimed roots differing from the true one in more than one byte / at positions other than 0, 15, 31"}, outside...)},
		{Name: "future", Pkg: "chain", Files: files, Entry: "VerifC11Future", Stubs: common, Outside: outside,
			Assumptions: []string{"a call to Execute takes less than an hour of wall-clock time"}},
		{Name: "builder", Pkg: "chain", Files: files, Entry: "VerifC11Builder", Stubs: common, Outside: outside,
			Assumptions: []string{"a call to BuildBlock takes less than an hour of wall-clock time"}},
	}})
}
