package main

func init() {
	ed := "github.com/ava-labs/hypersdk/crypto/ed25519."
	register(PropSpec{ID: "C16", Harnesses: []HarnessSpec{
		{Name: "sigjob", Pkg: "auth", Files: []string{"auth/c16_batch.go"}, Entry: "VerifC16", Sched: true, Preempt: [2]int{0, 1},
			Reach: []string{"accepted", "rejected"},
			Redirects: map[string]string{
				"crypto/ed25519.NewKeyFromSeed": "c16NewKeyModel",
				ed + "Sign":                     "c16SignModel",
				ed + "Verify":                   "c16VerifyModel",
				ed + "NewBatch":                 "c16NewBatchModel",
				"(*" + ed + "Batch).Add":        "c16BatchAddModel",
				"(*" + ed + "Batch).Verify":     "c16BatchVerifyModel",
			},
			Stubs:   []string{"ed25519 curve arithmetic is replaced in the engine by a validity-bit model (signature valid iff produced by Sign and not corrupted; a batch verifies iff all its members are valid) — the documented contract of ed25519consensus; the native replay runs the real signatures", "the unbatched auth scheme is a harness type with a validity flag (stands for secp256r1/bls, whose Verify is called one by one)"},
			Outside: []string{"the signature schemes themselves (C17)", "more than maxTxs transactions, more than 2 cores, more than maxInvalid invalid signatures", "schedules beyond the preemption bound"}},
		{Name: "tail", Pkg: "auth", Files: []string{"auth/c16_batch.go"}, Entry: "VerifC16Tail", Sched: true, Preempt: [2]int{0, 0},
			Reach: []string{"accepted", "rejected"},
			Redirects: map[string]string{
				"crypto/ed25519.NewKeyFromSeed": "c16NewKeyModel",
				ed + "Sign":                     "c16SignModel",
				ed + "Verify":                   "c16VerifyModel",
				ed + "NewBatch":                 "c16NewBatchModel",
				"(*" + ed + "Batch).Add":        "c16BatchAddModel",
				"(*" + ed + "Batch).Verify":     "c16BatchVerifyModel",
			},
			Stubs:   []string{"ed25519 curve arithmetic is replaced in the engine by a validity-bit model (signature valid iff produced by Sign and not corrupted; a batch verifies iff all its members are valid) — the documented contract of ed25519consensus; the native replay runs the real signatures", "the unbatched auth scheme is a harness type with a validity flag (stands for secp256r1/bls, whose Verify is called one by one)"},
			Outside: []string{"the signature schemes themselves (C17)", "more than maxTxs transactions, more than 2 cores, more than maxInvalid invalid signatures", "schedules beyond the preemption bound"}},
	}})
}
