package main

import (
	"fmt"
	"go/types"
	"math/big"

	"golang.org/x/tools/go/ssa"
)

type V interface{}

// Int is an integer value of width W (concrete C, or symbolic S != nil).
type Int struct {
	W      int
	Signed bool
	C      uint64
	S      *Term
	// INT-encoding bookkeeping (symbolic unsigned values only)
	KZ       uint64 // bits known to be zero
	Parts    []part // byte provenance
	shrSrc   *Term
	shrBytes int
}

type Bool struct {
	C bool
	S *Term
}

type Struct []V // fields
type Array []V
type Tuple []V

// Slice shares backing with other slices through the Go slice header of A.
type Slice struct {
	A   []V  // A[0:len] are the elements; cap(A) is the capacity
	Nil bool // nil slice
}

// AbsSlice is an abstract-content byte slice: only its (symbolic) length is modelled.
type AbsSlice struct {
	Len Int
}

// Str is a string; concrete (S) or symbolic bytes (B, exact length).
type Str struct {
	S string
	B []V // if non-nil: symbolic bytes (each Int W=8)
}

type MapV struct {
	KT, VT types.Type
	Keys   []V
	Vals   []V
}

type Iface struct {
	T types.Type // dynamic type; nil => nil interface
	V V
}

type Closure struct {
	Fn  *ssa.Function
	Env []V
}

type Bound struct { // bound method value
	Fn   *ssa.Function
	Recv V
}

type Opaque struct{ Name string }

type Ptr = *V // pointer to a slot; nil pointer is (*V)(nil)

type ErrVal struct {
	Msg  string
	Wrap []V // wrapped errors (Iface values)
}

type BigV struct{ X *big.Int }

func (i Int) String() string {
	if i.S != nil {
		return fmt.Sprintf("sym%d(%s)", i.W, i.S.ref())
	}
	return fmt.Sprintf("%d", i.C)
}

func intInfo(t types.Type) (w int, signed bool, ok bool) {
	b, isB := t.Underlying().(*types.Basic)
	if !isB {
		return 0, false, false
	}
	switch b.Kind() {
	case types.Int8:
		return 8, true, true
	case types.Int16:
		return 16, true, true
	case types.Int32, types.UntypedRune:
		return 32, true, true
	case types.Int64, types.Int, types.UntypedInt:
		return 64, true, true
	case types.Uint8:
		return 8, false, true
	case types.Uint16:
		return 16, false, true
	case types.Uint32:
		return 32, false, true
	case types.Uint64, types.Uint, types.Uintptr:
		return 64, false, true
	}
	return 0, false, false
}

func maskU(w int) uint64 {
	if w >= 64 {
		return ^uint64(0)
	}
	return (uint64(1) << uint(w)) - 1
}

func signExt(c uint64, w int) int64 {
	if w >= 64 {
		return int64(c)
	}
	sh := uint(64 - w)
	return int64(c<<sh) >> sh
}

func zero(t types.Type) V {
	switch u := t.Underlying().(type) {
	case *types.Basic:
		if w, s, ok := intInfo(t); ok {
			return Int{W: w, Signed: s}
		}
		switch u.Kind() {
		case types.Bool, types.UntypedBool:
			return Bool{}
		case types.String, types.UntypedString:
			return Str{}
		case types.Float64, types.Float32, types.UntypedFloat:
			return Float{}
		case types.UnsafePointer:
			return Ptr(nil)
		case types.UntypedNil:
			return nil
		}
		panic(unsupported("zero basic " + t.String()))
	case *types.Struct:
		s := make(Struct, u.NumFields())
		for i := range s {
			s[i] = zero(u.Field(i).Type())
		}
		return s
	case *types.Array:
		a := make(Array, u.Len())
		for i := range a {
			a[i] = zero(u.Elem())
		}
		return a
	case *types.Pointer:
		return Ptr(nil)
	case *types.Slice:
		return Slice{Nil: true}
	case *types.Map:
		return (*MapV)(nil)
	case *types.Interface:
		return Iface{}
	case *types.Signature:
		return nil
	case *types.Chan:
		return (*ChanV)(nil)
	case *types.Tuple:
		tp := make(Tuple, u.Len())
		for i := range tp {
			tp[i] = zero(u.At(i).Type())
		}
		return tp
	}
	panic(unsupported("zero " + t.String()))
}

// copyVal copies aggregates (structs/arrays are values in Go).
func copyVal(v V) V {
	switch x := v.(type) {
	case Struct:
		n := make(Struct, len(x))
		for i := range x {
			n[i] = copyVal(x[i])
		}
		return n
	case Array:
		n := make(Array, len(x))
		for i := range x {
			n[i] = copyVal(x[i])
		}
		return n
	case Tuple:
		n := make(Tuple, len(x))
		for i := range x {
			n[i] = copyVal(x[i])
		}
		return n
	}
	return v
}

type unsupportedErr struct{ what string }

func unsupported(s string) unsupportedErr { return unsupportedErr{s} }
