package main

func init() {
	register(PropSpec{ID: "C08", Harnesses: []HarnessSpec{
		{Name: "executor", Pkg: "internal/executor", Files: []string{"executor/c08_executor.go"}, Entry: "VerifC08", Sched: true, Preempt: [2]int{1, 2},
			Reach:       []string{"conflict-ordered", "task-failure-reported", "stop-reported"},
			Assumptions: []string{"Run is called from one goroutine (documented: not safe to call concurrently)", "maxDependencies (1000) exceeds every task's real dependency count (documented precondition)", "goroutines switch only at synchronisation operations: sound for data-race-free code"},
			Outside:     []string{"more tasks/keys/workers than the stated bounds", "more than one disturbance (failing task or Stop) per run", "panicking tasks", "schedules beyond the preemption bound"}},
	}})
}
