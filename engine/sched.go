package main

import (
	"fmt"
	"sync"
)

type killed struct{}

type G struct {
	id     int
	resume chan struct{}
	done   bool
	pred   func() bool // nil => runnable
	what   string
}

type sendW struct {
	g    *G
	val  V
	done bool
}

type ChanV struct {
	cap    int
	buf    []V
	closed bool
	sendq  []*sendW
	recvWaiting int
	elemZero func() V
}

type Sched struct {
	in      *Interp
	gs      []*G
	cur     *G
	kill    chan struct{}
	fatal   *pathEnd
	wg      sync.WaitGroup
	preempt int
	maxPreempt int
	mutex   map[Ptr]*mstate
	wgs     map[Ptr]*int
	atomVals map[Ptr]V
	switches int
}

type mstate struct {
	writer  bool
	readers int
}

func NewSched(in *Interp, maxPreempt int) *Sched {
	s := &Sched{in: in, kill: make(chan struct{}), maxPreempt: maxPreempt, mutex: map[Ptr]*mstate{}, wgs: map[Ptr]*int{}, atomVals: map[Ptr]V{}}
	main := &G{id: 0, resume: make(chan struct{}, 1)}
	s.gs = []*G{main}
	s.cur = main
	return s
}

func (s *Sched) enabled() []*G {
	var out []*G
	for _, g := range s.gs {
		if !g.done && (g.pred == nil || g.pred()) {
			out = append(out, g)
		}
	}
	return out
}

// wait parks the calling goroutine until it is resumed.
func (s *Sched) wait(g *G) {
	select {
	case <-g.resume:
	case <-s.kill:
		if g.id == 0 && s.fatal != nil {
			panic(*s.fatal)
		}
		panic(killed{})
	}
}

func (s *Sched) setFatal(pe pathEnd) {
	if s.fatal == nil {
		s.fatal = &pe
		close(s.kill)
	}
}

// switchTo hands the baton from g (current) to next.
func (s *Sched) switchTo(g, next *G) {
	if next == g {
		return
	}
	s.switches++
	s.cur = next
	next.resume <- struct{}{}
	s.wait(g)
	s.cur = g
}

// point is a scheduling point before a visible operation of g (g is runnable).
func (s *Sched) point(g *G) {
	en := s.enabled()
	if len(en) <= 1 {
		return
	}
	if s.preempt >= s.maxPreempt {
		return
	}
	// option 0 = continue g; others = preempt to another goroutine
	opts := []*G{g}
	for _, o := range en {
		if o != g {
			opts = append(opts, o)
		}
	}
	k := s.in.ex.take("sched", len(opts), nil)
	if k != 0 {
		s.preempt++
		s.switchTo(g, opts[k])
	}
}

// block parks g until pred holds; another goroutine must run meanwhile.
func (s *Sched) block(g *G, what string, pred func() bool) {
	for !pred() {
		g.pred, g.what = pred, what
		en := s.enabled()
		if len(en) == 0 {
			desc := ""
			for _, x := range s.gs {
				if !x.done {
					desc += fmt.Sprintf("g%d:%s ", x.id, x.what)
				}
			}
			pe := pathEnd{"deadlock", desc}
			if g.id == 0 {
				g.pred = nil
				panic(pe)
			}
			s.setFatal(pe)
			panic(killed{})
		}
		k := 0
		if len(en) > 1 {
			k = s.in.ex.take("sched-block", len(en), nil)
		}
		s.switchTo(g, en[k])
		g.pred = nil
	}
	g.pred = nil
}

// exit is called when a non-main goroutine finishes.
func (s *Sched) exit(g *G) {
	g.done = true
	en := s.enabled()
	if len(en) == 0 {
		// everyone else is blocked
		desc := ""
		for _, x := range s.gs {
			if !x.done {
				desc += fmt.Sprintf("g%d:%s ", x.id, x.what)
			}
		}
		s.setFatal(pathEnd{"deadlock", desc})
		return
	}
	k := 0
	if len(en) > 1 {
		k = s.in.ex.take("sched-exit", len(en), nil)
	}
	s.cur = en[k]
	en[k].resume <- struct{}{}
}

func (s *Sched) spawnThunk(f func()) {
	s.spawnF(f)
}

func (s *Sched) spawn(fn V, args []V) {
	s.spawnF(func() { s.in.callValue(fn, args) })
}

func (s *Sched) spawnF(body func()) {
	g := &G{id: len(s.gs), resume: make(chan struct{}, 1)}
	s.gs = append(s.gs, g)
	s.wg.Add(1)
	go func() {
		defer s.wg.Done()
		defer func() {
			if r := recover(); r != nil {
				switch x := r.(type) {
				case killed:
				case pathEnd:
					s.setFatal(x)
				case unsupportedErr:
					s.setFatal(pathEnd{"unsupported", x.what})
				case goPanic:
					s.setFatal(pathEnd{"panic", fmt.Sprint(x.v)})
				default:
					s.setFatal(pathEnd{"unsupported", "engine-internal: " + firstLine(fmt.Sprint(r)) + " @ " + engineSite()})
				}
			}
		}()
		s.wait(g)
		body()
		s.exit(g)
	}()
}

// finish ends the path: kill remaining goroutines and wait for them.
func (s *Sched) finish() {
	if s.fatal == nil {
		select {
		case <-s.kill:
		default:
			close(s.kill)
		}
	}
	s.wg.Wait()
}

// ---- channels ----

func (s *Sched) send(ch *ChanV, v V) {
	g := s.cur
	s.point(g)
	if ch == nil {
		s.block(g, "send nil chan", func() bool { return false })
	}
	if ch.closed {
		panic(goPanic{Str{S: "send on closed channel"}})
	}
	if len(ch.buf) < ch.cap {
		ch.buf = append(ch.buf, v)
		return
	}
	w := &sendW{g: g, val: v}
	ch.sendq = append(ch.sendq, w)
	s.block(g, "chan send", func() bool { return w.done || ch.closed })
	if !w.done {
		panic(goPanic{Str{S: "send on closed channel"}})
	}
}

func (ch *ChanV) recvReady() bool { return len(ch.buf) > 0 || len(ch.sendq) > 0 || ch.closed }

func (ch *ChanV) take() (V, bool) {
	if len(ch.buf) > 0 {
		v := ch.buf[0]
		ch.buf = ch.buf[1:]
		// a parked sender can now fill the buffer
		if len(ch.sendq) > 0 {
			w := ch.sendq[0]
			ch.sendq = ch.sendq[1:]
			ch.buf = append(ch.buf, w.val)
			w.done = true
		}
		return v, true
	}
	if len(ch.sendq) > 0 {
		w := ch.sendq[0]
		ch.sendq = ch.sendq[1:]
		w.done = true
		return w.val, true
	}
	return ch.elemZero(), false
}

func (s *Sched) recv(ch *ChanV) (V, bool) {
	g := s.cur
	s.point(g)
	if ch == nil {
		s.block(g, "recv nil chan", func() bool { return false })
	}
	if !ch.recvReady() {
		ch.recvWaiting++
		s.block(g, "chan recv", ch.recvReady)
		ch.recvWaiting--
	}
	return ch.take()
}

func (s *Sched) closeCh(ch *ChanV) {
	s.point(s.cur)
	if ch.closed {
		panic(goPanic{Str{S: "close of closed channel"}})
	}
	ch.closed = true
}

// ---- sync ----

func (s *Sched) mu(p Ptr) *mstate {
	m := s.mutex[p]
	if m == nil {
		m = &mstate{}
		s.mutex[p] = m
	}
	return m
}

func (s *Sched) lock(p Ptr) {
	g := s.cur
	s.point(g)
	m := s.mu(p)
	s.block(g, "lock", func() bool { return !m.writer && m.readers == 0 })
	m.writer = true
}

func (s *Sched) unlock(p Ptr) {
	m := s.mu(p)
	if !m.writer {
		panic(goPanic{Str{S: "unlock of unlocked mutex"}})
	}
	m.writer = false
	s.point(s.cur)
}

func (s *Sched) rlock(p Ptr) {
	g := s.cur
	s.point(g)
	m := s.mu(p)
	s.block(g, "rlock", func() bool { return !m.writer })
	m.readers++
}

func (s *Sched) runlock(p Ptr) {
	m := s.mu(p)
	m.readers--
	s.point(s.cur)
}

func (s *Sched) wgCounter(p Ptr) *int {
	c := s.wgs[p]
	if c == nil {
		c = new(int)
		s.wgs[p] = c
	}
	return c
}

func (s *Sched) wgAdd(p Ptr, n int) {
	c := s.wgCounter(p)
	*c += n
	if *c < 0 {
		panic(goPanic{Str{S: "negative WaitGroup counter"}})
	}
	s.point(s.cur)
}

func (s *Sched) wgWait(p Ptr) {
	g := s.cur
	s.point(g)
	c := s.wgCounter(p)
	s.block(g, "wg wait", func() bool { return *c == 0 })
}
