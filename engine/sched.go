package main

import (
	"fmt"
	"os"
	"sync"
)

// Goroutines of the program under test are real goroutines of the engine passing a baton: exactly one runs at a time.
// Control can change hands only immediately BEFORE a visible operation (channel op, select, mutex/rwmutex op,
// WaitGroup op, atomic op, yield) or when a goroutine exits. At such a point every enabled goroutine (one whose pending
// visible operation can execute) is an option; the pick is a choice of the path. Reductions:
//   - preemption bound (optional): switching away from a goroutine whose own operation is enabled costs one preemption;
//   - sleep sets: after the subtree in which goroutine A moves first has been explored, A sleeps in the sibling subtrees
//     until an operation dependent with A's pending one is executed (dependent = shares a synchronisation object, unless
//     both are read-like). Sound for data-race-free code, where operations on different objects commute.

type killed struct{}

type pendOp struct {
	objs []any
	kind string
}

type G struct {
	id     int
	resume chan struct{}
	done   bool
	pred   func() bool // nil => pending operation is enabled
	what   string
	pend   pendOp
}

type sendW struct {
	g    *G
	val  V
	done bool
}

type ChanV struct {
	cap         int
	buf         []V
	closed      bool
	sendq       []*sendW
	recvWaiting int
	elemZero    func() V
}

type sleepEnt struct {
	g    *G
	pend pendOp
}

type Sched struct {
	in         *Interp
	gs         []*G
	cur        *G
	kill       chan struct{}
	fatal      *pathEnd
	wg         sync.WaitGroup
	preempt    int
	maxPreempt int // < 0: unbounded
	mutex      map[Ptr]*mstate
	wgs        map[Ptr]*int
	atomVals   map[Ptr]V
	switches   int
	sleep      []sleepEnt
	noSleep    bool
	yieldObj   *int
}

type mstate struct {
	writer  bool
	readers int
}

func NewSched(in *Interp, maxPreempt int) *Sched {
	s := &Sched{in: in, kill: make(chan struct{}), maxPreempt: maxPreempt, mutex: map[Ptr]*mstate{}, wgs: map[Ptr]*int{}, atomVals: map[Ptr]V{}, yieldObj: new(int), noSleep: os.Getenv("GOSYM_NOSLEEP") != ""}
	main := &G{id: 0, resume: make(chan struct{}, 1)}
	s.gs = []*G{main}
	s.cur = main
	return s
}

func readLike(k string) bool { return k == "rlock" || k == "runlock" || k == "aload" }

func dependent(a, b pendOp) bool {
	if readLike(a.kind) && readLike(b.kind) {
		return false
	}
	for _, x := range a.objs {
		for _, y := range b.objs {
			if x == y {
				return true
			}
		}
	}
	return false
}

func (s *Sched) enabled() []*G {
	var out []*G
	for _, g := range s.gs {
		if !g.done && (g.pred == nil || g.pred()) {
			out = append(out, g)
		}
	}
	return out
}

func (s *Sched) asleep(g *G) bool {
	for _, e := range s.sleep {
		if e.g == g {
			return true
		}
	}
	return false
}

// wait parks the calling goroutine until it is resumed.
func (s *Sched) wait(g *G) {
	select {
	case <-g.resume:
	case <-s.kill:
		if g.id == 0 && s.fatal != nil {
			panic(*s.fatal)
		}
		panic(killed{})
	}
}

func (s *Sched) setFatal(pe pathEnd) {
	if s.fatal == nil {
		s.fatal = &pe
		close(s.kill)
	}
}

func (s *Sched) describeBlocked() string {
	desc := ""
	for _, x := range s.gs {
		if !x.done {
			desc += fmt.Sprintf("g%d:%s ", x.id, x.what)
		}
	}
	return desc
}

// abort ends the path from goroutine g with the given leaf.
func (s *Sched) abort(g *G, pe pathEnd) {
	if g.id == 0 {
		g.pred = nil
		panic(pe)
	}
	s.setFatal(pe)
	panic(killed{})
}

// decide picks the goroutine that performs the next visible operation. g is the goroutine making the decision (the
// one that was running); gEnabled tells whether g itself is among the enabled ones (false when it exits or blocks).
func (s *Sched) decide(g *G, gEnabled bool) *G {
	en := s.enabled()
	if len(en) == 0 {
		return nil
	}
	var opts []*G
	if gEnabled && !s.asleep(g) {
		opts = append(opts, g)
	}
	if !(gEnabled && s.maxPreempt >= 0 && s.preempt >= s.maxPreempt) {
		for _, o := range en {
			if o != g && !s.asleep(o) {
				opts = append(opts, o)
			}
		}
	}
	if len(opts) == 0 {
		s.abort(g, pathEnd{"infeasible", "sleep-set blocked"})
	}
	k := 0
	if len(opts) > 1 {
		k = s.in.ex.take("sched", len(opts), nil)
	}
	chosen := opts[k]
	if !s.noSleep {
		for _, o := range opts[:k] {
			s.sleep = append(s.sleep, sleepEnt{o, o.pend})
		}
		// executing chosen's operation wakes every sleeper whose pending operation depends on it
		kept := s.sleep[:0]
		for _, e := range s.sleep {
			if !dependent(e.pend, chosen.pend) {
				kept = append(kept, e)
			}
		}
		s.sleep = kept
	}
	if gEnabled && chosen != g {
		s.preempt++
	}
	return chosen
}

// visible is called by goroutine g immediately before a visible operation on objs; pred (may be nil) tells whether the
// operation can execute. It returns when g has been picked to execute it.
func (s *Sched) visible(objs []any, kind string, pred func() bool) {
	g := s.cur
	g.pend = pendOp{objs, kind}
	g.pred = pred
	g.what = kind
	gEnabled := pred == nil || pred()
	chosen := s.decide(g, gEnabled)
	if chosen == nil {
		s.abort(g, pathEnd{"deadlock", s.describeBlocked()})
	}
	if chosen != g {
		s.switches++
		s.cur = chosen
		chosen.resume <- struct{}{}
		s.wait(g)
		s.cur = g
	}
	g.pred = nil
}

// point is a pure scheduling point (yield).
func (s *Sched) point(g *G) {
	s.visible([]any{s.yieldObj}, "yield", nil)
}

// exit is called when a non-main goroutine finishes.
func (s *Sched) exit(g *G) {
	g.done = true
	allDone := true
	for _, x := range s.gs {
		if !x.done {
			allDone = false
		}
	}
	if allDone {
		return
	}
	en := s.enabled()
	if len(en) == 0 {
		s.setFatal(pathEnd{"deadlock", s.describeBlocked()})
		return
	}
	var chosen *G
	func() {
		defer func() {
			if r := recover(); r != nil {
				if _, ok := r.(killed); !ok {
					panic(r)
				}
			}
		}()
		chosen = s.decide(g, false)
	}()
	if chosen == nil {
		return
	}
	s.cur = chosen
	chosen.resume <- struct{}{}
}

func (s *Sched) spawnThunk(f func()) {
	s.spawnF(f)
}

func (s *Sched) spawn(fn V, args []V) {
	s.spawnF(func() { s.in.callValue(fn, args) })
}

func (s *Sched) spawnF(body func()) {
	g := &G{id: len(s.gs), resume: make(chan struct{}, 1), what: "start"}
	g.pend = pendOp{[]any{g}, "start"}
	s.gs = append(s.gs, g)
	s.wg.Add(1)
	go func() {
		defer s.wg.Done()
		defer func() {
			if r := recover(); r != nil {
				switch x := r.(type) {
				case killed:
				case pathEnd:
					s.setFatal(x)
				case unsupportedErr:
					s.setFatal(pathEnd{"unsupported", x.what})
				case goPanic:
					s.setFatal(pathEnd{"panic", fmt.Sprint(x.v)})
				default:
					s.setFatal(pathEnd{"unsupported", "engine-internal: " + firstLine(fmt.Sprint(r)) + " @ " + engineSite()})
				}
			}
		}()
		s.wait(g)
		body()
		s.exit(g)
	}()
}

// finish ends the path: kill remaining goroutines and wait for them.
func (s *Sched) finish() {
	if s.fatal == nil {
		select {
		case <-s.kill:
		default:
			close(s.kill)
		}
	}
	s.wg.Wait()
}

// ---- channels ----

func (s *Sched) send(ch *ChanV, v V) {
	g := s.cur
	if ch == nil {
		s.visible([]any{g}, "send nil chan", func() bool { return false })
	}
	s.visible([]any{ch}, "chan send", nil)
	if ch.closed {
		panic(goPanic{Str{S: "send on closed channel"}})
	}
	if len(ch.buf) < ch.cap {
		ch.buf = append(ch.buf, v)
		return
	}
	w := &sendW{g: g, val: v}
	ch.sendq = append(ch.sendq, w)
	s.visible([]any{ch}, "chan send (waiting for receiver)", func() bool { return w.done || ch.closed })
	if !w.done {
		panic(goPanic{Str{S: "send on closed channel"}})
	}
}

func (ch *ChanV) recvReady() bool { return len(ch.buf) > 0 || len(ch.sendq) > 0 || ch.closed }

func (ch *ChanV) take() (V, bool) {
	if len(ch.buf) > 0 {
		v := ch.buf[0]
		ch.buf = ch.buf[1:]
		// a parked sender can now fill the buffer
		if len(ch.sendq) > 0 {
			w := ch.sendq[0]
			ch.sendq = ch.sendq[1:]
			ch.buf = append(ch.buf, w.val)
			w.done = true
		}
		return v, true
	}
	if len(ch.sendq) > 0 {
		w := ch.sendq[0]
		ch.sendq = ch.sendq[1:]
		w.done = true
		return w.val, true
	}
	return ch.elemZero(), false
}

func (s *Sched) recv(ch *ChanV) (V, bool) {
	g := s.cur
	if ch == nil {
		s.visible([]any{g}, "recv nil chan", func() bool { return false })
	}
	waiting := !ch.recvReady()
	if waiting {
		ch.recvWaiting++
	}
	s.visible([]any{ch}, "chan recv", ch.recvReady)
	if waiting {
		ch.recvWaiting--
	}
	return ch.take()
}

func (s *Sched) closeCh(ch *ChanV) {
	s.visible([]any{ch}, "chan close", nil)
	if ch.closed {
		panic(goPanic{Str{S: "close of closed channel"}})
	}
	ch.closed = true
}

// ---- sync ----

func (s *Sched) mu(p Ptr) *mstate {
	m := s.mutex[p]
	if m == nil {
		m = &mstate{}
		s.mutex[p] = m
	}
	return m
}

func (s *Sched) lock(p Ptr) {
	m := s.mu(p)
	s.visible([]any{p}, "lock", func() bool { return !m.writer && m.readers == 0 })
	m.writer = true
}

func (s *Sched) unlock(p Ptr) {
	m := s.mu(p)
	s.visible([]any{p}, "unlock", nil)
	if !m.writer {
		panic(goPanic{Str{S: "unlock of unlocked mutex"}})
	}
	m.writer = false
}

func (s *Sched) rlock(p Ptr) {
	m := s.mu(p)
	s.visible([]any{p}, "rlock", func() bool { return !m.writer })
	m.readers++
}

func (s *Sched) runlock(p Ptr) {
	m := s.mu(p)
	s.visible([]any{p}, "runlock", nil)
	m.readers--
}

func (s *Sched) wgCounter(p Ptr) *int {
	c := s.wgs[p]
	if c == nil {
		c = new(int)
		s.wgs[p] = c
	}
	return c
}

func (s *Sched) wgAdd(p Ptr, n int) {
	c := s.wgCounter(p)
	s.visible([]any{p}, "wg add", nil)
	*c += n
	if *c < 0 {
		panic(goPanic{Str{S: "negative WaitGroup counter"}})
	}
}

func (s *Sched) wgWait(p Ptr) {
	c := s.wgCounter(p)
	s.visible([]any{p}, "wg wait", func() bool { return *c == 0 })
}
