package main

import (
	"go/token"
	"math/big"
)

// divCmpConst rewrites an unsigned bit-vector comparison between a concrete value c and a quotient K/b with a
// constant dividend K and a symbolic divisor b into a division-free comparison (exact, also under SMT-LIB's
// bvudiv-by-zero = all-ones convention):
//
//	c > K/b   <=>   c >= 1  and  b > K/c
//
// (b >= 1: floor(K/b) < c <=> K < c*b <=> b > floor(K/c);  b = 0: K/0 = all-ones is never < c, and 0 > K/c is false.)
// This is the shape of overflow guards such as avalanchego's safemath.Mul (`a > MaxUint64/b`) when one factor is
// concrete; without it every such guard puts a 64-bit divider into the path condition.
func (in *Interp) divCmpConst(op token.Token, x, y Int) (V, bool) {
	if in.intMode || x.Signed || y.Signed {
		return nil, false
	}
	// normalise to: c OP' (K/b)
	var c Int
	var d *Term
	switch {
	case x.S == nil && y.S != nil:
		c, d = x, y.S
	case y.S == nil && x.S != nil:
		c, d = y, x.S
		switch op { // (K/b) OP c  ->  c OP' (K/b)
		case token.LSS:
			op = token.GTR
		case token.GEQ:
			op = token.LEQ
		default:
			return nil, false
		}
	default:
		return nil, false
	}
	if d.op != "bvudiv" || d.args[0].op != "const" || d.args[1].op == "const" {
		return nil, false
	}
	if op != token.GTR && op != token.LEQ {
		return nil, false
	}
	var gt *Term // c > K/b
	if c.C == 0 {
		gt = in.ts.False()
	} else {
		q := new(big.Int).Div(d.args[0].val, new(big.Int).SetUint64(c.C))
		gt = in.ts.Op("bvugt", 0, d.args[1], in.ts.Const(q, d.w))
	}
	if op == token.LEQ {
		return in.mkBool(in.ts.Op("not", 0, gt)), true
	}
	return in.mkBool(gt), true
}
