package main

import (
	"flag"
	"runtime/pprof"
	"fmt"
	"os"
	"path/filepath"
	"runtime"
	"sort"
	"strings"
	"sync"
	"time"

	"golang.org/x/tools/go/packages"
	"golang.org/x/tools/go/ssa"
	"golang.org/x/tools/go/ssa/ssautil"
)

// verifRoot is the /verif tree the harness sources, KNOWN_FINDINGS, evidence and replay files live in; repoRoot the
// repository under check. Both can be redirected (VERIF_ROOT / VERIF_REPO) for work in scratch worktrees.
var verifRoot = envOr("VERIF_ROOT", "/verif")
var repoRoot = envOr("VERIF_REPO", "/repo")

func envOr(k, d string) string {
	if v := os.Getenv(k); v != "" {
		return v
	}
	return d
}

var ssaMu sync.Mutex // guards lazy go/ssa building (package Build, method synthesis)

func usage() {
	fmt.Println(`usage:
  gosym check <Cxx> [--tier quick|thorough] [--workers N] [--only harness] [--v]
  gosym replay <Cxx> <replay.json>
  gosym list`)
	os.Exit(2)
}

func main() {
	if len(os.Args) < 2 {
		usage()
	}
	if pf := os.Getenv("GOSYM_PROF"); pf != "" {
		f, _ := os.Create(pf)
		pprof.StartCPUProfile(f)
		defer pprof.StopCPUProfile()
		code := 0
		switch os.Args[1] {
		case "check":
			code = cmdCheck(os.Args[2:])
		}
		pprof.StopCPUProfile()
		os.Exit(code)
	}
	switch os.Args[1] {
	case "check":
		stop := startProfile()
		rc := cmdCheck(os.Args[2:])
		stop()
		os.Exit(rc)
	case "replay":
		os.Exit(cmdReplay(os.Args[2:]))
	case "list":
		for _, p := range allProps() {
			fmt.Printf("%s  %d harness(es)\n", p.ID, len(p.Harnesses))
		}
	default:
		usage()
	}
}

// LoadedPkg is one package of /repo loaded (from the current working tree) together with its overlaid harness files.
type LoadedPkg struct {
	prog   *ssa.Program
	pkg    *ssa.Package
	files  map[string][]byte // overlay path -> content
	pkgDir string
	loadS  float64
	npkgs  int
}

func supportSource(pkgName string) []byte {
	raw, err := os.ReadFile(filepath.Join(verifRoot, "harness/_support/verif_support.go.tmpl"))
	if err != nil {
		panic(err)
	}
	return []byte(strings.Replace(string(raw), "package PKGNAME", "package "+pkgName, 1))
}

func goEnv() []string {
	env := []string{}
	for _, e := range os.Environ() {
		if strings.HasPrefix(e, "GOFLAGS=") || strings.HasPrefix(e, "GOPROXY=") || strings.HasPrefix(e, "GOTOOLCHAIN=") || strings.HasPrefix(e, "GOSUMDB=") {
			continue
		}
		env = append(env, e)
	}
	return append(env, "GOFLAGS=-mod=mod", "GOPROXY=off")
}

func packageName(dir string) string {
	ents, _ := os.ReadDir(dir)
	for _, e := range ents {
		n := e.Name()
		if strings.HasSuffix(n, ".go") && !strings.HasSuffix(n, "_test.go") {
			raw, _ := os.ReadFile(filepath.Join(dir, n))
			for _, l := range strings.Split(string(raw), "\n") {
				l = strings.TrimSpace(l)
				if strings.HasPrefix(l, "package ") {
					return strings.Fields(l)[1]
				}
			}
		}
	}
	return filepath.Base(dir)
}

func loadPkg(modDir, pkgRel string, harnessFiles []string) (*LoadedPkg, error) {
	t0 := time.Now()
	pkgDir := filepath.Join(modDir, pkgRel)
	overlay := map[string][]byte{}
	pn := packageName(pkgDir)
	overlay[filepath.Join(pkgDir, "zz_verif_support.go")] = supportSource(pn)
	for _, hf := range harnessFiles {
		src, err := os.ReadFile(filepath.Join(verifRoot, "harness", hf))
		if err != nil {
			return nil, err
		}
		overlay[filepath.Join(pkgDir, "zz_verif_"+strings.ReplaceAll(filepath.Base(hf), "/", "_"))] = src
	}
	cfg := &packages.Config{Mode: packages.LoadAllSyntax, Dir: modDir, Env: goEnv(), Overlay: overlay}
	pkgs, err := packages.Load(cfg, "./"+pkgRel)
	if err != nil {
		return nil, err
	}
	nerr := 0
	var msgs []string
	packages.Visit(pkgs, nil, func(p *packages.Package) {
		for _, e := range p.Errors {
			nerr++
			if len(msgs) < 10 {
				msgs = append(msgs, e.Error())
			}
		}
	})
	if nerr > 0 {
		return nil, fmt.Errorf("package load errors: %s", strings.Join(msgs, "; "))
	}
	prog, spkgs := ssautil.AllPackages(pkgs, ssa.InstantiateGenerics)
	// build every package up front: lazy building from several exploration workers races with readers of half-built functions
	prog.Build()
	_ = spkgs[0]
	n := 0
	packages.Visit(pkgs, nil, func(p *packages.Package) { n++ })
	return &LoadedPkg{prog: prog, pkg: spkgs[0], files: overlay, pkgDir: pkgDir, loadS: time.Since(t0).Seconds(), npkgs: n}, nil
}

// HarnessResult is what one harness exploration produced.
type HarnessResult struct {
	Spec     *HarnessSpec
	Sh       *Shared
	Levels   []int
	ExploreS float64
	LoadS    float64
	Err      string
}

func runHarness(lp *LoadedPkg, hs *HarnessSpec, tier int, workers int, verbose bool) *HarnessResult {
	res := &HarnessResult{Spec: hs, LoadS: lp.loadS}
	hs.lp = lp
	fn := lp.pkg.Func(hs.Entry)
	if fn == nil {
		res.Err = "no entry function " + hs.Entry
		return res
	}
	t1 := time.Now()
	maxPre := hs.Preempt[tier]
	levels := []int{0}
	if hs.Sched && maxPre > 0 {
		levels = []int{0, maxPre}
	}
	if hs.Sched && maxPre < 0 {
		levels = []int{-1} // unbounded preemption (sleep-set reduced)
	}
	sh := NewShared(workers)
	sh.progress = verbose
	sh.lastProgress = time.Now()
	if hs.MaxPaths[tier] > 0 {
		sh.maxPaths = hs.MaxPaths[tier]
	}
	budget := hs.BudgetS[tier]
	if budget == 0 {
		budget = []int{600, 3600}[tier]
	}
	sh.deadline = time.Now().Add(time.Duration(budget) * time.Second)
	res.Sh = sh
	for _, lvl := range levels {
		res.Levels = append(res.Levels, lvl)
		sh.mu.Lock()
		sh.queue = [][]int{{}}
		sh.active = 0
		stopped := sh.stop
		sh.mu.Unlock()
		if stopped {
			break
		}
		var wg sync.WaitGroup
		for w := 0; w < workers; w++ {
			wg.Add(1)
			w := w
			go func() {
				defer wg.Done()
				ts := NewTermStore()
				qto := hs.QueryMs[tier]
				if qto == 0 {
					qto = []int{10000, 60000}[tier]
				}
				solBin := "z3"
				if hs.IntMode {
					solBin = "z3-new" // z3 5.1.0 decides the non-linear integer queries that 4.8.12 times out on
				}
				if b := os.Getenv("GOSYM_SOLVER"); b != "" {
					solBin = b
				}
				sol, err := NewSolver(solBin, qto)
				if err != nil {
					panic(err)
				}
				sol.resetMode = hs.IntMode
				if w == 0 && hs.smtlog != "" {
					if f, err := os.Create(hs.smtlog); err == nil {
						sol.log = f
					}
				}
				ex := NewExplorer(ts, sol, sh)
				ex.entry = hs.Entry
				ex.tier = tier
				ex.level = lvl
				ex.sampleOK = lvl == 0
				if tier == 1 && !hs.NoXCheck {
					other := "z3-new"
					if solBin == "z3-new" {
						other = "z3"
					}
					if x, err := NewSolver(other, qto); err == nil {
						x.resetMode = true
						ex.xsol = x
					}
				}
				in := NewInterp(lp.prog, ex)
				in.trace = os.Getenv("GOSYM_TRACE") != ""
				in.intMode = hs.IntMode
				in.tier = tier
				in.spec = hs
				if hs.Unwind > 0 {
					in.unwind = hs.Unwind
				}
				for {
					prefix, ok := sh.getTask()
					if !ok {
						break
					}
					ex.runTask(prefix, func() {
						in.reset()
						in.sched = NewSched(in, lvl)
						defer in.sched.finish()
						in.call(fn, nil, false)
					})
					sh.taskDone()
				}
				sol.Close()
				sh.mu.Lock()
				sh.queries += sol.queries
				sh.nsat += sol.nsat
				sh.nunsat += sol.nunsat
				sh.nunk += sol.nunk
				sh.solverTime += sol.elapsed
				if ex.xsol != nil {
					sh.solverTime += ex.xsol.elapsed
					ex.xsol.Close()
				}
				for k, v := range in.funcsRun {
					sh.funcsRun[k] += v
				}
				sh.mu.Unlock()
			}()
		}
		wg.Wait()
	}
	res.ExploreS = time.Since(t1).Seconds()
	return res
}

func cmdCheck(args []string) int {
	fs := flag.NewFlagSet("check", flag.ExitOnError)
	tierS := fs.String("tier", "", "quick|thorough")
	workers := fs.Int("workers", 0, "exploration workers (default: min(16, NumCPU))")
	only := fs.String("only", "", "run only the named harness")
	verbose := fs.Bool("v", false, "progress output")
	budgetFlag := fs.Int("budget", 0, "override the per-harness time budget (seconds)")
	smtlog := fs.String("smtlog", "", "log the SMT traffic of worker 0 to this file (debug)")
	noNative := fs.Bool("nonative", false, "skip native validation/replay (debug only; result is never a VIOLATION)")
	if len(args) < 1 {
		usage()
	}
	id := args[0]
	fs.Parse(args[1:])
	if *tierS == "" {
		*tierS = os.Getenv("VERIF_TIER")
	}
	tier := 0
	if *tierS == "thorough" {
		tier = 1
	}
	if *workers == 0 {
		*workers = runtime.NumCPU()
		if *workers > 16 {
			*workers = 16
		}
	}
	prop := findProp(id)
	if prop == nil {
		fmt.Printf("unknown property %s\n", id)
		return 2
	}
	rep := newReport(prop, tier)
	// group harnesses by package so that each package is loaded once
	type grp struct {
		modDir, pkg string
		hs          []*HarnessSpec
	}
	var groups []*grp
	for i := range prop.Harnesses {
		h := &prop.Harnesses[i]
		if *only != "" && !strings.Contains(","+*only+",", ","+h.Name+",") { // --only a,b,c
			continue
		}
		if h.ThoroughOnly && tier == 0 {
			continue
		}
		var g *grp
		for _, x := range groups {
			if x.modDir == h.modDir() && x.pkg == h.Pkg {
				g = x
			}
		}
		if g == nil {
			g = &grp{modDir: h.modDir(), pkg: h.Pkg}
			groups = append(groups, g)
		}
		g.hs = append(g.hs, h)
	}
	for _, g := range groups {
		fileSet := map[string]bool{}
		var files []string
		for _, h := range g.hs {
			for _, f := range h.Files {
				if !fileSet[f] {
					fileSet[f] = true
					files = append(files, f)
				}
			}
		}
		sort.Strings(files)
		lp, err := loadPkg(g.modDir, g.pkg, files)
		if err != nil {
			for _, h := range g.hs {
				rep.addInconclusive(h.Name, "load-error: "+err.Error())
			}
			continue
		}
		var results []*HarnessResult
		for _, h := range g.hs {
			if *verbose {
				fmt.Printf("== harness %s (%s.%s)\n", h.Name, g.pkg, h.Entry)
			}
			if *budgetFlag > 0 {
				h.BudgetS = [2]int{*budgetFlag, *budgetFlag}
			}
			h.smtlog = *smtlog
			r := runHarness(lp, h, tier, *workers, *verbose)
			results = append(results, r)
			rep.addHarness(r)
		}
		if !*noNative {
			rep.nativePhase(g.modDir, g.pkg, lp, results)
		} else {
			rep.skipNative(results)
		}
	}
	return rep.finish()
}
