package main

import (
	"fmt"
	"math/bits"
)

// Narrowing of unsigned division/remainder by a constant (BV mode). z3 bit-blasts a 64-bit divider for every
// `bvudiv x c`; code such as canoto.SizeUint ((bits.Len64(v)+6)/7) divides values that are provably tiny. When a cheap
// syntactic upper bound of the dividend fits k < w bits, the operation is done on k bits and zero-extended (same value).



const ubMax = ^uint64(0)

func wmask(w int) uint64 {
	if w <= 0 || w >= 64 {
		return ubMax
	}
	return 1<<uint(w) - 1
}

// ub returns an upper bound of the unsigned value of BV term t (ubMax when unknown or wider than 64 bits).
func (in *Interp) ub(t *Term, memo map[*Term]uint64) uint64 {
	if t.w > 64 || t.w <= 0 {
		return ubMax
	}
	if r, ok := memo[t]; ok {
		return r
	}
	m := wmask(t.w)
	r := m
	pow := func(x uint64) uint64 { // smallest 2^k-1 >= x
		if x == ubMax {
			return x
		}
		return wmask(bits.Len64(x))
	}
	switch t.op {
	case "const":
		if t.val.IsUint64() {
			r = t.val.Uint64()
		}
	case "ite":
		a, b := in.ub(t.args[1], memo), in.ub(t.args[2], memo)
		r = max(a, b)
	case "bvadd":
		a, b := in.ub(t.args[0], memo), in.ub(t.args[1], memo)
		if s := a + b; s >= a && s <= m { // no wrap possible
			r = s
		}
	case "bvand":
		r = min(in.ub(t.args[0], memo), in.ub(t.args[1], memo))
	case "bvor", "bvxor":
		r = pow(max(in.ub(t.args[0], memo), in.ub(t.args[1], memo)))
	case "bvlshr":
		r = in.ub(t.args[0], memo)
		if c := t.args[1]; c.op == "const" && c.val.IsUint64() {
			if k := c.val.Uint64(); k < 64 {
				r >>= k
			} else {
				r = 0
			}
		}
	case "bvudiv":
		r = in.ub(t.args[0], memo)
		if c := t.args[1]; c.op == "const" && c.val.IsUint64() && c.val.Uint64() > 0 {
			r /= c.val.Uint64()
		}
	case "bvurem":
		r = in.ub(t.args[0], memo)
		if c := t.args[1]; c.op == "const" && c.val.IsUint64() && c.val.Uint64() > 0 {
			r = min(r, c.val.Uint64()-1)
		}
	default:
		var n, hi, lo int
		if k, _ := fmt.Sscanf(t.op, "(_ zero_extend %d)", &n); k == 1 {
			r = in.ub(t.args[0], memo)
		} else if k, _ := fmt.Sscanf(t.op, "(_ extract %d %d)", &hi, &lo); k == 2 && lo == 0 {
			r = in.ub(t.args[0], memo)
		}
	}
	if r > m {
		r = m
	}
	memo[t] = r
	return r
}

// narrowUDiv returns the narrowed term for op ∈ {bvudiv,bvurem} x c, or nil when not applicable.
func (in *Interp) narrowUDiv(op string, w int, xt, yt *Term) *Term {
	if in.intMode || w > 64 || yt.op != "const" || !yt.val.IsUint64() || yt.val.Uint64() == 0 {
		return nil
	}
	if in.ubs == nil {
		in.ubs = map[*Term]uint64{}
	}
	c := yt.val.Uint64()
	b := in.ub(xt, in.ubs)
	k := bits.Len64(max(b, c))
	switch {
	case k <= 8:
		k = 8
	case k <= 16:
		k = 16
	default:
		return nil
	}
	if k >= w {
		return nil
	}
	x := in.ts.Op(fmt.Sprintf("(_ extract %d 0)", k-1), k, xt)
	r := in.ts.Op(op, k, x, in.ts.ConstU(c, k))
	return in.ts.Op(fmt.Sprintf("(_ zero_extend %d)", w-k), w, r)
}
