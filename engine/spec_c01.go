package main

func init() {
	register(PropSpec{ID: "C01", Harnesses: []HarnessSpec{
		{Name: "executeTxs", Pkg: "chain", Files: []string{"chain/common.go", "chain/c01_parallel.go"}, Entry: "VerifC01", Sched: true, Preempt: [2]int{0, 0},
			Stubs:       []string{"tracer/metrics/logging are opaque", "actions are harness actions running a script of get/insert/remove on one contended key; the balance handler is the harness handler of harness/chain/common.go (8-byte balances)", "parent state is a map-backed state.Immutable"},
			Assumptions: []string{"goroutines switch only at synchronisation operations: sound for data-race-free code"},
			Outside:     []string{"this harness explores every non-preemptive schedule (all choices at blocking operations and goroutine exits); preemptive schedules are the `preempt` harness", "signature verification (C16), merkledb view/root computation, block context", "more than `txs` transactions, one action per transaction with at most `opsPerAction` operations, one contended data key plus two sponsor balance keys", "more than 2 execution cores / 2 fetch workers", "schedules beyond the preemption bound"}},
		{Name: "preempt", Pkg: "chain", Files: []string{"chain/common.go", "chain/c01_parallel.go"}, Entry: "VerifC01Preempt", Sched: true, Preempt: [2]int{1, 1},
			Stubs:       []string{"as harness executeTxs"},
			Assumptions: []string{"goroutines switch only at synchronisation operations: sound for data-race-free code"},
			Outside:     []string{"configurations other than: parent holds the key, first transaction writes or removes it, 2 execution cores (the full configuration space is the executeTxs harness)", "schedules beyond the preemption bound"}},
		{Name: "three", Pkg: "chain", Files: []string{"chain/common.go", "chain/c01_parallel.go"}, Entry: "VerifC01Three", Sched: true, Preempt: [2]int{1, 1}, ThoroughOnly: true,
			Stubs:       []string{"as harness executeTxs"},
			Assumptions: []string{"goroutines switch only at synchronisation operations: sound for data-race-free code"},
			Outside:     []string{"three-transaction blocks other than writer / reader with the same sponsor / writer-or-remover with another sponsor"}},
	}})
}
