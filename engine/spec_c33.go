package main

func init() {
	files := []string{"fees/c33_largestset.go"}
	register(PropSpec{ID: "C33", Harnesses: []HarnessSpec{
		{Name: "largestset", Pkg: "fees", Files: files, Entry: "VerifC33", IntMode: true,
			Reach: []string{"skipped", "all-selected"},
			Stubs: []string{"math/big weights = exact SMT integers (non-linear integer arithmetic)", "sort.SliceStable = stable insertion sort driven by the real less closure (engine intrinsic)"},
			Outside: []string{"more than maxItems vectors (longer lists: harness anyorder)", "limits other than 0, 10, 2^16, 2^64-1 per symbolic dimension (all limits: harness anyorder)", "vectors that are non-zero outside the first symbolicDims dimensions (LargestSet loops uniformly over the dimensions); the limits of those dimensions are fixed (0 or 2^40)"}},
		{Name: "anyorder", Pkg: "fees", Files: files, Entry: "VerifC33AnyOrder", IntMode: true,
			Reach:     []string{"skipped", "all-selected"},
			Redirects: map[string]string{"(*math/big.Int).Div": "c33AnyWeight"},
			Stubs: []string{"the per-dimension weight quotient (*big.Int).Div is an arbitrary number: every processing order of the items is explored, a superset of the orders the real weights induce (the property does not depend on the order); a counter-example whose order the real weights do not produce does not replay natively and is reported unconfirmed",
				"sort.SliceStable = stable insertion sort driven by the real less closure (engine intrinsic)"},
			Outside: []string{"more than maxItems vectors", "vectors that are non-zero outside the first symbolicDims dimensions; the limits of those dimensions are fixed (0 or 2^40)"}},
		{Name: "anyorder4", Pkg: "fees", Files: files, Entry: "VerifC33AnyOrder4", IntMode: true, ThoroughOnly: true,
			Reach:     []string{"skipped", "all-selected"},
			Redirects: map[string]string{"(*math/big.Int).Div": "c33AnyWeight"},
			Stubs:     []string{"as harness anyorder: arbitrary weights, i.e. every processing order"},
			Outside:   []string{"more than 4 vectors", "vectors that are non-zero outside dimension 0"}},
	}})
}
