package main

func init() {
	files := []string{"internal_mempool/c23_mempool.go"}
	assume := []string{
		"items with the same ID are the same item (an ID is the hash of the item's bytes)",
		"items are named in order of first use; the first item's sponsor is sponsor 0 (items and sponsors are interchangeable)",
		"calls are sequential: every public Mempool method holds m.mu for its whole body, so concurrent calls are equivalent to one of the explored interleavings",
	}
	register(PropSpec{ID: "C23", Harnesses: []HarnessSpec{
		{Name: "history", Pkg: "internal/mempool", Files: files, Entry: "VerifC23History",
			Reach:       []string{"add-refused", "expired"},
			Assumptions: assume,
			Outside:     []string{"more than maxOps operations (followed by popping everything)", "more than `items` distinct items, more than two sponsors", "limit configurations other than the listed (item limit, sponsor limit) pairs", "Add/Remove calls with several items", "Top (gossip iteration)"}},
		{Name: "stream", Pkg: "internal/mempool", Files: files, Entry: "VerifC23Stream",
			Reach: []string{"re-add-blocked", "prefetch-delivered", "given-back", "give-back-refused", "expired"},
			Assumptions: append([]string{
				"the builder's streaming protocol: StartStreaming/FinishStreaming paired, Stream/PrepareStream only inside a stream, at most one outstanding PrepareStream, one batch size per run, restorable items are items received from Stream in this stream (chain/builder.go); a second StartStreaming without FinishStreaming blocks on streamLock",
			}, assume...),
			Outside: []string{"histories other than: `setup` initial adds, StartStreaming, exactly maxOps operations, FinishStreaming (if still streaming), popping everything", "quick tier: Remove and PopNext by other callers during a stream (thorough tier has them; outside a stream: harness history)", "(item limit, sponsor limit, batch size) combinations other than the listed ones", "more than `items` distinct items, two sponsors", "restorable lists in another order than item order", "Top (gossip iteration)"}},
	}})
}
