package main

import (
	"fmt"
	"math/big"
	"strings"
)

// Term is an SMT term node (BV or Bool sort). Hash-consing is by string key.
type Term struct {
	id   int
	op   string // smt operator, "var", "const"
	args []*Term
	w    int // bit width; 0 = Bool
	name string
	val  *big.Int // for const
	str  string   // cached inline form for leaves
}

type TermStore struct {
	byKey    map[string]*Term
	all      []*Term
	laneMemo map[int]laneInfo // simplify_bytes.go
}

func NewTermStore() *TermStore { return &TermStore{byKey: map[string]*Term{}} }

func (ts *TermStore) mk(op string, w int, name string, val *big.Int, args ...*Term) *Term {
	var sb strings.Builder
	sb.WriteString(op)
	sb.WriteByte('|')
	fmt.Fprintf(&sb, "%d|%s|", w, name)
	if val != nil {
		sb.WriteString(val.String())
	}
	for _, a := range args {
		fmt.Fprintf(&sb, ",%d", a.id)
	}
	k := sb.String()
	if t, ok := ts.byKey[k]; ok {
		return t
	}
	t := &Term{id: len(ts.all), op: op, args: args, w: w, name: name, val: val}
	ts.byKey[k] = t
	ts.all = append(ts.all, t)
	return t
}

func (ts *TermStore) Var(name string, w int) *Term { return ts.mk("var", w, name, nil) }

func mask(w int) *big.Int {
	m := new(big.Int).Lsh(big.NewInt(1), uint(w))
	return m.Sub(m, big.NewInt(1))
}

func (ts *TermStore) Const(v *big.Int, w int) *Term {
	v = new(big.Int).And(v, mask(w))
	return ts.mk("const", w, "", v)
}
func (ts *TermStore) ConstU(v uint64, w int) *Term { return ts.Const(new(big.Int).SetUint64(v), w) }
func (ts *TermStore) True() *Term                 { return ts.mk("true", 0, "", nil) }
func (ts *TermStore) False() *Term                { return ts.mk("false", 0, "", nil) }
func (ts *TermStore) BoolC(b bool) *Term {
	if b {
		return ts.True()
	}
	return ts.False()
}

func (t *Term) isConst() bool { return t.op == "iconst" || t.op == "const" || t.op == "true" || t.op == "false" }

func (ts *TermStore) Op(op string, w int, args ...*Term) *Term {
	// light simplifications
	switch op {
	case "not":
		a := args[0]
		if a.op == "true" {
			return ts.False()
		}
		if a.op == "false" {
			return ts.True()
		}
		if a.op == "not" {
			return a.args[0]
		}
	case "and":
		if args[0].op == "false" || args[1].op == "false" {
			return ts.False()
		}
		if args[0].op == "true" {
			return args[1]
		}
		if args[1].op == "true" {
			return args[0]
		}
	case "or":
		if args[0].op == "true" || args[1].op == "true" {
			return ts.True()
		}
		if args[0].op == "false" {
			return args[1]
		}
		if args[1].op == "false" {
			return args[0]
		}
	case "=":
		if args[0] == args[1] {
			return ts.True()
		}
		if (args[0].op == "const" && args[1].op == "const") || (args[0].op == "iconst" && args[1].op == "iconst") {
			return ts.BoolC(args[0].val.Cmp(args[1].val) == 0)
		}
	case "ite":
		if args[0].op == "true" {
			return args[1]
		}
		if args[0].op == "false" {
			return args[2]
		}
		if args[1] == args[2] {
			return args[1]
		}
	}
	if op == "bvor" {
		return ts.recompose(ts.mk(op, w, "", nil, args...))
	}
	return ts.mk(op, w, "", nil, args...)
}

func sortOf(w int) string {
	if w == -1 {
		return "Int"
	}
	if w == 0 {
		return "Bool"
	}
	return fmt.Sprintf("(_ BitVec %d)", w)
}

// inline form of a leaf or reference name of an inner node
func (t *Term) ref() string {
	switch t.op {
	case "var":
		return t.name
	case "true", "false":
		return t.op
	case "iconst":
		if t.val.Sign() < 0 {
			return "(- " + new(big.Int).Neg(t.val).String() + ")"
		}
		return t.val.String()
	case "const":
		if t.w%4 == 0 {
			return fmt.Sprintf("#x%0*s", t.w/4, t.val.Text(16))
		}
		return fmt.Sprintf("#b%0*s", t.w, t.val.Text(2))
	}
	return fmt.Sprintf("t%d", t.id)
}

func (t *Term) body() string {
	var sb strings.Builder
	sb.WriteByte('(')
	sb.WriteString(strings.TrimPrefix(t.op, "uf:"))
	for _, a := range t.args {
		sb.WriteByte(' ')
		sb.WriteString(a.ref())
	}
	sb.WriteByte(')')
	return sb.String()
}
