package main

func init() {
	register(PropSpec{ID: "C25", Harnesses: []HarnessSpec{
		{Name: "eheap", Pkg: "internal/eheap", Files: []string{"internal_eheap/c25_eheap.go"}, Entry: "VerifC25ExpiryHeap",
			Reach:       []string{"add-duplicate", "removed", "expired"},
			Assumptions: []string{"IDs are introduced in order of first use (the structures only compare IDs for equality, so any other naming is a renaming)", "single-threaded use (ExpiryHeap has no lock; its users hold their own)"},
			Outside:     []string{"more than maxOps operations", "more than `ids` distinct IDs"}},
		{Name: "heapshape", Pkg: "internal/eheap", Files: []string{"internal_eheap/c25_eheap.go"}, Entry: "VerifC25HeapShape",
			Assumptions: []string{"single-threaded use"},
			Outside:     []string{"heaps of more than `items` entries; more than one removal before draining"}},
		{Name: "heapshape-small", Pkg: "internal/eheap", Files: []string{"internal_eheap/c25_eheap.go"}, Entry: "VerifC25HeapShapeSmall",
			Assumptions: []string{"single-threaded use"},
			Outside:     []string{"expiries outside {0,1,2,3}; heaps of more than `items` entries; more than one removal before draining"}},
		{Name: "emap", Pkg: "internal/emap", Files: []string{"internal_emap/c25_emap.go"}, Entry: "VerifC25EMap",
			Reach:       []string{"add-duplicate", "expired"},
			Stubs:       []string{"set.Bits (a math/big bit set) is executed on concrete big integers"},
			Assumptions: []string{"expiry != 0 (EMap does not track entries with expiry 0 by design; the property exempts them)", "IDs are introduced in order of first use (only compared for equality)", "calls are sequential (every method holds the EMap lock for its whole body)"},
			Outside:     []string{"more than maxOps operations", "more than `ids` distinct IDs", "Add calls with more than one item (quick) / two items (thorough)", "Contains with pre-set marker bits or stop=true"}},
	}})
}
