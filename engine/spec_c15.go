package main

func init() {
	c15 := []string{"chain/common.go", "chain/c15_canonical.go"}
	h := func(name, entry string, reach ...string) HarnessSpec {
		return HarnessSpec{Name: name, Pkg: "chain", Files: c15, Entry: entry, Reach: reach}
	}
	register(PropSpec{ID: "C15", Harnesses: []HarnessSpec{
		h("result-bytes", "VerifC15ResultBytes", "accepted", "rejected"),
		h("result-mutated", "VerifC15ResultMutated", "accepted", "rejected"),
		h("result-roundtrip", "VerifC15ResultRoundTrip"),
		h("results-bytes", "VerifC15ResultsBytes", "accepted", "rejected"),
		h("results-mutated", "VerifC15ResultsMutated", "accepted", "rejected"),
		h("results-roundtrip", "VerifC15ResultsRoundTrip"),
		h("base-bytes", "VerifC15BaseBytes", "accepted", "rejected", "accepted-all-fields"),
		h("base-roundtrip", "VerifC15BaseRoundTrip"),
		h("tx-bytes", "VerifC15TxBytes", "accepted", "rejected", "accepted-with-action"),
		h("tx-mutated", "VerifC15TxMutated", "accepted", "rejected"),
		h("tx-fields", "VerifC15TxFields", "accepted", "rejected", "accepted-all-fields"),
		h("tx-roundtrip", "VerifC15TxRoundTrip"),
		h("block-bytes", "VerifC15BlockBytes", "accepted", "rejected", "accepted-with-tx"),
		h("block-mutated", "VerifC15BlockMutated", "accepted", "rejected"),
		h("block-roundtrip", "VerifC15BlockRoundTrip"),
		h("batch-bytes", "VerifC15BatchBytes", "accepted", "rejected", "accepted-with-tx"),
		h("batch-mutated", "VerifC15BatchMutated", "accepted", "rejected"),
	}})
}
