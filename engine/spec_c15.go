package main

func init() {
	c15 := []string{"chain/common.go", "chain/c15_canonical.go"}
	parserStub := "actions/auth = harness types whose wire form is exactly `typeID ‖ 1 payload byte` (canonical by construction), registered with the real codec.TypeParser / chain.TxTypeParser: the framework's canonicality is what is checked"
	hashStub := "utils.ToID (SHA-256) = uninterpreted function on symbolic bytes (real SHA-256 natively); IDs are compared with the hash of the input bytes (same function, same arguments), never for inequality"
	h := func(name, entry string, outside []string, reach ...string) HarnessSpec {
		return HarnessSpec{Name: name, Pkg: "chain", Files: c15, Entry: entry, Reach: reach, Outside: outside,
			Stubs: []string{parserStub, hashStub}}
	}
	bytesOut := func(what string) []string {
		return []string{"buffers longer than the `" + what + "` bound (longer encodings are reached only through the *-mutated / *-fields / *-roundtrip harnesses)"}
	}
	mutOut := []string{"mutations other than one cut(<= cut bound)+insert(<= insert bound, arbitrary bytes) at one position, or one run of 8/32/40 zero bytes, of ONE full-size template whose remaining bytes are fixed (listed in the harness source)"}
	thoroughOnly := func(x HarnessSpec) HarnessSpec { x.ThoroughOnly = true; return x }
	register(PropSpec{ID: "C15", Harnesses: []HarnessSpec{
		h("result-bytes", "VerifC15ResultBytes", bytesOut("resultMaxLen"), "accepted", "rejected"),
		h("result-mutated", "VerifC15ResultMutated", mutOut, "accepted", "rejected"),
		h("result-roundtrip", "VerifC15ResultRoundTrip", []string{"more than 2 outputs, outputs longer than 1 byte, errors longer than 2 bytes"}),
		h("results-bytes", "VerifC15ResultsBytes", bytesOut("resultsMaxLen"), "accepted", "rejected"),
		thoroughOnly(h("results-mutated", "VerifC15ResultsMutated", mutOut, "accepted", "rejected")),
		h("results-roundtrip", "VerifC15ResultsRoundTrip", []string{"more than 2 results; an all-zero Result (the empty message; canoto decodes it as a nil entry)"}),
		h("base-bytes", "VerifC15BaseBytes", bytesOut("baseMaxLen"), "accepted", "rejected"),
		h("base-mutated", "VerifC15BaseMutated", mutOut, "accepted", "rejected"),
		h("base-roundtrip", "VerifC15BaseRoundTrip", nil),
		h("tx-bytes", "VerifC15TxBytes", bytesOut("txMaxLen"), "accepted", "rejected", "accepted-with-action"),
		h("tx-mutated", "VerifC15TxMutated", mutOut, "accepted", "rejected"),
		h("tx-fields", "VerifC15TxFields", []string{"sequences of more than txMaxFields top-level fields"}, "accepted", "rejected", "accepted-all-fields"),
		h("tx-roundtrip", "VerifC15TxRoundTrip", []string{"more than txMaxActions actions; bases other than the empty and one full-size base (every base round-trips by base-roundtrip)"}),
		{Name: "tx-longauth", Pkg: "chain", Files: []string{"chain/common.go", "chain/c15_canonical.go", "chain/c15_long.go"}, Entry: "VerifC15TxLongAuth",
			Stubs:   []string{"auth = harness scheme with a long credential (typeID ‖ payload of the chosen length; first and last payload byte symbolic)", hashStub},
			Outside: []string{"auth encodings of lengths other than 126..130 (thorough also 16382..16385) bytes"}},
		h("block-bytes", "VerifC15BlockBytes", bytesOut("blockMaxLen"), "accepted", "rejected", "accepted-with-tx"),
		h("block-mutated", "VerifC15BlockMutated", mutOut, "accepted", "rejected"),
		h("block-roundtrip", "VerifC15BlockRoundTrip", []string{"more than blockMaxTxs transactions (each one action + auth, no base)", "header fields partly present (covered by block-bytes/block-mutated)", "a non-nil block context with P-chain height 0 (the empty message: encoded as absent, decoded as nil)", "quick: P-chain heights >= 2^14"}),
		h("batch-bytes", "VerifC15BatchBytes", bytesOut("batchMaxLen"), "accepted", "rejected", "accepted-with-tx"),
		h("batch-mutated", "VerifC15BatchMutated", mutOut, "accepted", "rejected"),
		{Name: "ed25519-bytes", Pkg: "auth", Files: []string{"auth/c15_ed25519.go"}, Entry: "VerifC15ED25519Bytes", Reach: []string{"accepted", "rejected"},
			Outside: []string{"buffer lengths other than {0,1,2,96,97,98}"}},
		{Name: "ed25519-tx", Pkg: "auth", Files: []string{"auth/c15_ed25519.go"}, Entry: "VerifC15ED25519Tx", Reach: []string{"accepted", "rejected"},
			Stubs:   []string{"action = harness type (typeID ‖ 1 payload byte); auth = the real auth.UnmarshalED25519 behind the real codec.TypeParser", hashStub, "signatures are not verified (Verify is not part of this property)"},
			Outside: []string{"mutations outside the framing bytes (first 8 and last 2 bytes) of the template; key/signature bytes fixed except the first and last auth payload byte"}},
	}, Assumptions: []string{
		"morpheusvm's Transfer parser (avalanchego reflection codec) is outside the engine and not claimed",
		"ExecutedBlock (indexer storage format, never received from the network) is not covered",
	}})
}
