package main

import (
	"fmt"
	"sync"
	"path/filepath"
	"go/constant"
	"go/token"
	"go/types"
	"os"
	"strings"

	"golang.org/x/tools/go/ssa"
)

type goPanic struct{ v V }

type frame struct {
	fn     *ssa.Function
	fi     *funcInfo
	regs   []V
	locals []V
	defers []func()
	result V
	block  *ssa.BasicBlock
	prev   *ssa.BasicBlock
	panicking *goPanic
	loopCount []int32
	deferOf   *frame // set on the frame of a deferred function: the frame whose defers are running
}

type Interp struct {
	prog    *ssa.Program
	ex      *Explorer
	ts      *TermStore
	globals map[*ssa.Global]*V
	inited  map[*ssa.Package]bool
	steps   int
	maxSteps int
	unwind  int
	depth   int
	trace   bool
	funcsRun map[string]int
	initPkg *ssa.Package
	intMode bool
	srcWidth map[*Term]int
	sched *Sched
	tier  int
	spec  *HarnessSpec
	curIf *ssa.If
	luts  map[*Term]*lutRec
	pendingDeferOf *frame
	syncMaps map[Ptr]*MapV
	ubs   map[*Term]uint64 // narrow.go: memo of syntactic upper bounds
}

func NewInterp(prog *ssa.Program, ex *Explorer) *Interp {
	return &Interp{prog: prog, ex: ex, ts: ex.ts, globals: map[*ssa.Global]*V{}, inited: map[*ssa.Package]bool{}, maxSteps: 5_000_000, unwind: 64, funcsRun: map[string]int{}}
}

func (in *Interp) reset() {
	in.globals = map[*ssa.Global]*V{}
	in.inited = map[*ssa.Package]bool{}
	in.steps = 0
	in.luts = nil
	in.syncMaps = nil
}

// funcInfo numbers the SSA values of a function so that frames keep them in a slice.
type funcInfo struct {
	idx map[ssa.Value]int
	n   int
}

var funcInfos sync.Map // *ssa.Function -> *funcInfo

func infoOf(fn *ssa.Function) *funcInfo {
	if fi, ok := funcInfos.Load(fn); ok {
		return fi.(*funcInfo)
	}
	fi := &funcInfo{idx: map[ssa.Value]int{}}
	add := func(v ssa.Value) {
		if _, ok := fi.idx[v]; !ok {
			fi.idx[v] = fi.n
			fi.n++
		}
	}
	for _, p := range fn.Params {
		add(p)
	}
	for _, fv := range fn.FreeVars {
		add(fv)
	}
	for _, b := range fn.Blocks {
		for _, ins := range b.Instrs {
			if v, ok := ins.(ssa.Value); ok {
				add(v)
			}
		}
	}
	if fn.Recover != nil {
		for _, ins := range fn.Recover.Instrs {
			if v, ok := ins.(ssa.Value); ok {
				add(v)
			}
		}
	}
	act, _ := funcInfos.LoadOrStore(fn, fi)
	return act.(*funcInfo)
}

func (fr *frame) set(v ssa.Value, x V) { fr.regs[fr.fi.idx[v]] = x }

// ---- helpers for Int/Bool construction ----

func (in *Interp) cInt(c uint64, w int, signed bool) Int { return Int{W: w, Signed: signed, C: c & maskU(w)} }

func (in *Interp) term(i Int) *Term {
	if i.S != nil {
		return i.S
	}
	return in.ts.ConstU(i.C, i.W)
}

func (in *Interp) bterm(b Bool) *Term {
	if b.S != nil {
		return b.S
	}
	return in.ts.BoolC(b.C)
}

func (in *Interp) mkBool(t *Term) Bool {
	switch t.op {
	case "true":
		return Bool{C: true}
	case "false":
		return Bool{C: false}
	}
	return Bool{S: t}
}

func (in *Interp) mkInt(t *Term, w int, signed bool) Int {
	if t.op == "const" {
		return Int{W: w, Signed: signed, C: t.val.Uint64()}
	}
	return Int{W: w, Signed: signed, S: t}
}

// truth decides a Bool, forking if symbolic.
func (in *Interp) truth(b Bool) bool {
	if b.S == nil {
		return b.C
	}
	if in.curIf != nil && in.ex.depth >= len(in.ex.vec) {
		pos := in.prog.Fset.Position(in.curIf.Cond.Pos())
		if !pos.IsValid() {
			pos = in.prog.Fset.Position(in.curIf.Pos())
		}
		in.ex.brSite = fmt.Sprintf("%s:%d", filepath.Base(pos.Filename), pos.Line)
	}
	return in.ex.branch(b.S)
}

// concInt forces an integer to a concrete value by case-splitting over [0,max].
func (in *Interp) concInt(i Int, max int, what string) int {
	if i.S == nil {
		if i.Signed {
			return int(signExt(i.C, i.W))
		}
		return int(i.C)
	}
	opt := in.ex.takeValue("len:"+what, i.S, max, func(k int) *Term {
		if in.intMode {
			return in.ts.Op("=", 0, i.S, in.ts.IntU(uint64(k)))
		}
		return in.ts.Op("=", 0, i.S, in.ts.ConstU(uint64(k), i.W))
	})
	return opt
}

// ---- constants ----

func (in *Interp) constVal(c *ssa.Const) V {
	t := c.Type()
	if c.Value == nil {
		return zero(t)
	}
	if w, s, ok := intInfo(t); ok {
		if s {
			v, _ := constant.Int64Val(constant.ToInt(c.Value))
			return in.cInt(uint64(v), w, true)
		}
		v, _ := constant.Uint64Val(constant.ToInt(c.Value))
		return in.cInt(v, w, false)
	}
	switch b := t.Underlying().(type) {
	case *types.Basic:
		switch {
		case b.Info()&types.IsBoolean != 0:
			return Bool{C: constant.BoolVal(c.Value)}
		case b.Info()&types.IsString != 0:
			return Str{S: constant.StringVal(c.Value)}
		case b.Info()&types.IsFloat != 0:
			f, _ := constant.Float64Val(c.Value)
			return Float{f}
		}
	}
	panic(unsupported("const " + c.String()))
}

func (in *Interp) get(fr *frame, v ssa.Value) V {
	switch x := v.(type) {
	case *ssa.Const:
		return in.constVal(x)
	case *ssa.Function:
		return x
	case *ssa.Global:
		return Ptr(in.global(x))
	case *ssa.Builtin:
		return x
	}
	i, ok := fr.fi.idx[v]
	if !ok {
		panic(fmt.Sprintf("no value for %s (%T) in %s", v.Name(), v, fr.fn))
	}
	return fr.regs[i]
}

func (in *Interp) global(g *ssa.Global) *V {
	if p, ok := in.globals[g]; ok {
		return p
	}
	// allocate all globals of the package, then run its init lazily
	pkg := g.Pkg
	for _, m := range pkg.Members {
		if gg, ok := m.(*ssa.Global); ok {
			if _, done := in.globals[gg]; !done {
				slot := new(V)
				*slot = zero(gg.Type().(*types.Pointer).Elem())
				in.globals[gg] = slot
			}
		}
	}
	if !in.inited[pkg] {
		in.inited[pkg] = true
		in.runInit(pkg)
	}
	return in.globals[g]
}

func (in *Interp) runInit(pkg *ssa.Package) {
	ssaMu.Lock()
	pkg.Build()
	ssaMu.Unlock()
	initFn := pkg.Func("init")
	if initFn == nil || initFn.Blocks == nil {
		return
	}
	defer func() {
		if r := recover(); r != nil {
			if u, ok := r.(unsupportedErr); ok {
				_ = u // tolerated in init context: remaining globals stay zero
				return
			}
			panic(r)
		}
	}()
	saved := in.initPkg
	in.initPkg = pkg
	defer func() { in.initPkg = saved }()
	in.call(initFn, nil, true)
}

// ---- calls ----

func (in *Interp) callValue(fv V, args []V) V {
	switch f := fv.(type) {
	case *ssa.Function:
		return in.call(f, args, false)
	case *Closure:
		return in.callClosure(f, args)
	case *Bound:
		return in.call(f.Fn, append([]V{f.Recv}, args...), false)
	case *NativeFn:
		return f.f(in, args)
	case nil:
		panic(goPanic{Str{S: "call of nil func"}})
	}
	panic(unsupported(fmt.Sprintf("call value %T", fv)))
}

func (in *Interp) callClosure(c *Closure, args []V) V {
	return in.callFn(c.Fn, args, c.Env, false)
}

// traceUnsupported (GOSYM_UNSUP_TRACE=1): annotate "unsupported" path ends with the innermost call stack.
var traceUnsupported = os.Getenv("GOSYM_UNSUP_TRACE") != ""

func (in *Interp) call(fn *ssa.Function, args []V, initCtx bool) V {
	return in.callFn(fn, args, nil, initCtx)
}

func (in *Interp) callFn(fn *ssa.Function, args []V, env []V, initCtx bool) V {
	name := fn.String()
	if initCtx && fn.Name() == "init" && fn.Pkg != nil && fn.Pkg != in.initPkg && fn.Signature.Recv() == nil && fn.Signature.Params().Len() == 0 {
		return nil // dependency initialisers are run lazily on first global access
	}
	if r, ok := in.intrinsic(fn, name, args, initCtx); ok {
		return r
	}
	if fn.Blocks == nil {
		// A generic instance (Pkg == nil) is created and built inside the Build() of the package that references it; another
		// worker may be in the middle of that Build: taking the lock waits for it to finish.
		ssaMu.Lock()
		if fn.Pkg != nil {
			fn.Pkg.Build()
		} else if o := fn.Origin(); o != nil && o.Pkg != nil {
			o.Pkg.Build()
		}
		ssaMu.Unlock()
		if fn.Blocks == nil {
			if initCtx {
				return zeroResult(fn)
			}
			panic(unsupported("bodyless function " + name))
		}
	}
	in.funcsRun[name]++
	in.depth++
	if in.depth > 400 {
		panic(pathEnd{"unwind", "recursion depth in " + name})
	}
	defer func() { in.depth-- }()
	if traceUnsupported {
		defer func() {
			if r := recover(); r != nil {
				if u, ok := r.(unsupportedErr); ok && strings.Count(u.what, " <- ") < 6 {
					panic(unsupportedErr{u.what + " <- " + name})
				}
				panic(r)
			}
		}()
	}
	fi := infoOf(fn)
	fr := &frame{fn: fn, fi: fi, regs: make([]V, fi.n), loopCount: make([]int32, len(fn.Blocks)), deferOf: in.pendingDeferOf}
	in.pendingDeferOf = nil
	for i, p := range fn.Params {
		fr.set(p, args[i])
	}
	for i, fv := range fn.FreeVars {
		fr.set(fv, env[i])
	}
	return in.runFrame(fr, initCtx)
}

func zeroResult(fn *ssa.Function) V {
	res := fn.Signature.Results()
	switch res.Len() {
	case 0:
		return nil
	case 1:
		return zeroOrOpaque(res.At(0).Type())
	}
	t := make(Tuple, res.Len())
	for i := range t {
		t[i] = zeroOrOpaque(res.At(i).Type())
	}
	return t
}

func zeroOrOpaque(t types.Type) (v V) {
	defer func() {
		if r := recover(); r != nil {
			v = Opaque{t.String()}
		}
	}()
	return zero(t)
}

func (in *Interp) runFrame(fr *frame, initCtx bool) (result V) {
	fr.block = fr.fn.Blocks[0]
	// panic/defer handling
	defer func() {
		if r := recover(); r != nil {
			gp, ok := r.(goPanic)
			if !ok {
				panic(r)
			}
			fr.panicking = &gp
			in.runDefers(fr)
			if fr.panicking != nil {
				panic(*fr.panicking)
			}
			// recovered: return named results if any via Recover block
			if fr.fn.Recover != nil {
				fr.block = fr.fn.Recover
				fr.prev = nil
				result = in.loop(fr, initCtx)
				return
			}
			result = zeroResult(fr.fn)
		}
	}()
	return in.loop(fr, initCtx)
}

func (in *Interp) runDefers(fr *frame) {
	for len(fr.defers) > 0 {
		d := fr.defers[len(fr.defers)-1]
		fr.defers = fr.defers[:len(fr.defers)-1]
		in.pendingDeferOf = fr // the deferred function's own frame may recover fr's panic
		d()
		in.pendingDeferOf = nil
	}
}

func (in *Interp) loop(fr *frame, initCtx bool) V {
	for {
		b := fr.block
		fr.loopCount[b.Index]++
		if int(fr.loopCount[b.Index]) > in.unwind*50 {
			panic(pathEnd{"unwind", fmt.Sprintf("block %d of %s", b.Index, fr.fn)})
		}
		var next *ssa.BasicBlock
		// phis of a block are evaluated simultaneously (all read the values of the predecessor edge first)
		if len(b.Instrs) > 0 {
			if _, isPhi := b.Instrs[0].(*ssa.Phi); isPhi {
				pi := -1
				for i, p := range b.Preds {
					if p == fr.prev {
						pi = i
						break
					}
				}
				var phis []*ssa.Phi
				var vals []V
				for _, ins := range b.Instrs {
					ph, ok := ins.(*ssa.Phi)
					if !ok {
						break
					}
					phis = append(phis, ph)
					if pi >= 0 {
						vals = append(vals, in.get(fr, ph.Edges[pi]))
					}
				}
				if pi >= 0 {
					for i, ph := range phis {
						fr.set(ph, vals[i])
					}
				}
			}
		}
		for _, ins := range b.Instrs {
			in.steps++
			if in.steps > in.maxSteps {
				panic(pathEnd{"unwind", "step limit"})
			}
			switch x := ins.(type) {
			case *ssa.Phi:
			case *ssa.If:
				c := in.get(fr, x.Cond).(Bool)
				if c.S != nil {
					in.curIf = x
				}
				if in.truth(c) {
					next = b.Succs[0]
				} else {
					next = b.Succs[1]
				}
			case *ssa.Jump:
				next = b.Succs[0]
			case *ssa.Return:
				var res V
				switch len(x.Results) {
				case 0:
				case 1:
					res = in.get(fr, x.Results[0])
				default:
					t := make(Tuple, len(x.Results))
					for i, r := range x.Results {
						t[i] = in.get(fr, r)
					}
					res = t
				}
				fr.result = res
				if fr.panicking == nil {
					// normal return: defers were run by RunDefers instruction
				}
				return res
			case *ssa.Panic:
				panic(goPanic{Tuple{in.get(fr, x.X), Str{S: "at " + fr.fn.String() + " " + in.prog.Fset.Position(x.Pos()).String()}}})
			case *ssa.RunDefers:
				in.runDefers(fr)
			default:
				in.exec(fr, ins, initCtx)
			}
		}
		if next == nil {
			panic("fell off block")
		}
		fr.prev = b
		fr.block = next
	}
}

func (in *Interp) exec(fr *frame, ins ssa.Instruction, initCtx bool) {
	if in.trace {
		fmt.Printf("  %s: %s\n", fr.fn.Name(), ins)
	}
	switch x := ins.(type) {
	case *ssa.Alloc:
		slot := new(V)
		*slot = zero(x.Type().(*types.Pointer).Elem())
		fr.regs[fr.fi.idx[x]] = Ptr(slot)
	case *ssa.Store:
		p := in.get(fr, x.Addr).(Ptr)
		if p == nil {
			panic(goPanic{Str{S: "nil pointer store"}})
		}
		storeInto(p, in.get(fr, x.Val))
	case *ssa.UnOp:
		fr.regs[fr.fi.idx[x]] = in.unop(fr, x)
	case *ssa.BinOp:
		fr.regs[fr.fi.idx[x]] = in.binop(x.Op, in.get(fr, x.X), in.get(fr, x.Y), x.X.Type())
	case *ssa.FieldAddr:
		p := in.get(fr, x.X).(Ptr)
		if p == nil {
			panic(goPanic{Str{S: "nil pointer dereference (field addr) in " + fr.fn.String()}})
		}
		st, ok := (*p).(Struct)
		if !ok {
			panic(unsupported(fmt.Sprintf("fieldaddr on %T in %s", *p, fr.fn)))
		}
		fr.regs[fr.fi.idx[x]] = Ptr(&st[x.Field])
	case *ssa.Field:
		st := in.get(fr, x.X).(Struct)
		fr.regs[fr.fi.idx[x]] = copyVal(st[x.Field])
	case *ssa.IndexAddr:
		fr.regs[fr.fi.idx[x]] = in.indexAddr(fr, x)
	case *ssa.Index:
		fr.regs[fr.fi.idx[x]] = in.index(fr, x)
	case *ssa.Extract:
		fr.regs[fr.fi.idx[x]] = in.get(fr, x.Tuple).(Tuple)[x.Index]
	case *ssa.Call:
		fr.regs[fr.fi.idx[x]] = in.doCall(fr, &x.Call, initCtx)
	case *ssa.Defer:
		fnv, args := in.prepareCall(fr, &x.Call)
		call := &x.Call
		fr.defers = append(fr.defers, func() { in.invokePrepared(fr, call, fnv, args, initCtx) })
	case *ssa.Go:
		fnv, args := in.prepareCall(fr, &x.Call)
		call := &x.Call
		in.sched.spawnThunk(func() { in.invokePrepared(fr, call, fnv, args, false) })
	case *ssa.Send:
		in.sched.send(in.get(fr, x.Chan).(*ChanV), in.get(fr, x.X))
	case *ssa.Select:
		fr.regs[fr.fi.idx[x]] = in.doSelect(fr, x)
	case *ssa.MakeInterface:
		fr.regs[fr.fi.idx[x]] = Iface{T: x.X.Type(), V: in.get(fr, x.X)}
	case *ssa.ChangeInterface:
		fr.regs[fr.fi.idx[x]] = in.get(fr, x.X)
	case *ssa.ChangeType:
		fr.regs[fr.fi.idx[x]] = in.get(fr, x.X)
	case *ssa.Convert:
		fr.regs[fr.fi.idx[x]] = in.convert(in.get(fr, x.X), x.X.Type(), x.Type())
	case *ssa.MultiConvert:
		fr.regs[fr.fi.idx[x]] = in.convert(in.get(fr, x.X), x.X.Type(), x.Type())
	case *ssa.TypeAssert:
		fr.regs[fr.fi.idx[x]] = in.typeAssert(fr, x)
	case *ssa.MakeClosure:
		c := &Closure{Fn: x.Fn.(*ssa.Function)}
		for _, b := range x.Bindings {
			c.Env = append(c.Env, in.get(fr, b))
		}
		fr.regs[fr.fi.idx[x]] = c
	case *ssa.MakeMap:
		mt := x.Type().Underlying().(*types.Map)
		fr.regs[fr.fi.idx[x]] = &MapV{KT: mt.Key(), VT: mt.Elem()}
	case *ssa.MakeSlice:
		if r, ok := in.absMake(x, in.get(fr, x.Len).(Int), in.get(fr, x.Cap).(Int)); ok {
			fr.regs[fr.fi.idx[x]] = r
			break
		}
		n := in.concInt(in.get(fr, x.Len).(Int), 64, "makeslice")
		c := in.concInt(in.get(fr, x.Cap).(Int), 1<<20, "makeslice-cap")
		if c < n {
			c = n
		}
		et := x.Type().Underlying().(*types.Slice).Elem()
		a := make([]V, n, c)
		for i := range a {
			a[i] = zero(et)
		}
		fr.regs[fr.fi.idx[x]] = Slice{A: a}
	case *ssa.MakeChan:
		n := in.concInt(in.get(fr, x.Size).(Int), 1<<20, "makechan")
		et := x.Type().Underlying().(*types.Chan).Elem()
		fr.regs[fr.fi.idx[x]] = &ChanV{cap: n, elemZero: func() V { return zero(et) }}
	case *ssa.Slice:
		fr.regs[fr.fi.idx[x]] = in.slice(fr, x)
	case *ssa.SliceToArrayPointer:
		sl := in.get(fr, x.X).(Slice)
		n := int(x.Type().(*types.Pointer).Elem().Underlying().(*types.Array).Len())
		if len(sl.A) < n {
			panic(goPanic{Str{S: "slice to array pointer: too short"}})
		}
		arr := Array(sl.A[:n:n])
		var slot V = arr
		fr.regs[fr.fi.idx[x]] = Ptr(&slot)
	case *ssa.Lookup:
		fr.regs[fr.fi.idx[x]] = in.lookup(fr, x)
	case *ssa.MapUpdate:
		m := in.get(fr, x.Map).(*MapV)
		if m == nil {
			panic(goPanic{Str{S: "assignment to entry in nil map"}})
		}
		in.mapSet(m, in.get(fr, x.Key), copyVal(in.get(fr, x.Value)))
	case *ssa.Range:
		fr.regs[fr.fi.idx[x]] = in.rangeIter(in.get(fr, x.X), x.X.Type())
	case *ssa.Next:
		fr.regs[fr.fi.idx[x]] = in.next(in.get(fr, x.Iter).(*iter), x)
	case *ssa.DebugRef:
	default:
		panic(unsupported(fmt.Sprintf("instruction %T in %s", ins, fr.fn)))
	}
}

// storeInto writes v into the slot p. Aggregates are written element by element INTO the existing aggregate so that
// pointers to its fields/elements taken earlier (FieldAddr/IndexAddr) stay valid, as in Go's memory model.
func storeInto(p *V, v V) {
	switch nv := v.(type) {
	case Array:
		if old, ok := (*p).(Array); ok && len(old) == len(nv) {
			for i := range nv {
				storeInto(&old[i], nv[i])
			}
			return
		}
	case Struct:
		if old, ok := (*p).(Struct); ok && len(old) == len(nv) {
			for i := range nv {
				storeInto(&old[i], nv[i])
			}
			return
		}
	}
	*p = copyVal(v)
}

// ---- calls from instructions ----

func (in *Interp) prepareCall(fr *frame, c *ssa.CallCommon) (V, []V) {
	var args []V
	if c.IsInvoke() {
		recv := in.get(fr, c.Value)
		args = append(args, recv)
	}
	for _, a := range c.Args {
		args = append(args, in.get(fr, a))
	}
	if c.IsInvoke() {
		return nil, args
	}
	return in.get(fr, c.Value), args
}

func (in *Interp) doCall(fr *frame, c *ssa.CallCommon, initCtx bool) V {
	fnv, args := in.prepareCall(fr, c)
	return in.invokePrepared(fr, c, fnv, args, initCtx)
}

func (in *Interp) invokePrepared(fr *frame, c *ssa.CallCommon, fnv V, args []V, initCtx bool) V {
	if c.IsInvoke() {
		recv := args[0]
		if c.Method.Pkg() != nil && isOpaquePkg(c.Method.Pkg().Path()) {
			if c.Method.Name() == "RecoverAndPanic" || c.Method.Name() == "RecoverAndExit" {
				return in.callValue(args[1], nil)
			}
			return opaqueResults(c.Signature())
		}
		if op, ok := recv.(Opaque); ok {
			_ = op
			return zeroSig(c.Signature())
		}
		ifc, ok := recv.(Iface)
		if !ok || ifc.T == nil {
			panic(goPanic{Str{S: "nil interface method call " + c.Method.Name() + " in " + fr.fn.String()}})
		}
		if _, isOp := ifc.V.(Opaque); isOp {
			return zeroSig(c.Signature())
		}
		if cv, isCtx := ifc.V.(*CtxV); isCtx {
			return in.ctxMethod(cv, c.Method.Name(), c.Signature())
		}
		if ev, isErr := ifc.V.(*ErrVal); isErr {
			switch c.Method.Name() {
			case "Error":
				return Str{S: ev.Msg}
			}
		}
		ssaMu.Lock()
		fn := in.prog.LookupMethod(ifc.T, c.Method.Pkg(), c.Method.Name())
		ssaMu.Unlock()
		if fn == nil {
			panic(unsupported("method lookup " + ifc.T.String() + "." + c.Method.Name()))
		}
		args[0] = ifc.V
		return in.call(fn, args, initCtx)
	}
	switch f := fnv.(type) {
	case *ssa.Builtin:
		return in.builtin(fr, f, c, args)
	case *ssa.Function:
		return in.call(f, args, initCtx)
	}
	return in.callValue(fnv, args)
}

func zeroSig(sig *types.Signature) V {
	res := sig.Results()
	switch res.Len() {
	case 0:
		return nil
	case 1:
		return zeroOrOpaque(res.At(0).Type())
	}
	t := make(Tuple, res.Len())
	for i := range t {
		t[i] = zeroOrOpaque(res.At(i).Type())
	}
	return t
}

// ---- unop/binop ----

func (in *Interp) unop(fr *frame, x *ssa.UnOp) V {
	v := in.get(fr, x.X)
	switch x.Op {
	case token.MUL: // load
		if sr, ok := v.(SymRef); ok {
			r, ok := in.symLoad(sr.idx, sr.elems)
			if !ok {
				panic(unsupported("symbolic element load"))
			}
			return r
		}
		p := v.(Ptr)
		if p == nil {
			panic(goPanic{Str{S: "nil pointer dereference in " + fr.fn.String()}})
		}
		return copyVal(*p)
	case token.NOT:
		b := v.(Bool)
		if b.S == nil {
			return Bool{C: !b.C}
		}
		return in.mkBool(in.ts.Op("not", 0, b.S))
	case token.SUB:
		if f, ok := v.(Float); ok {
			return Float{-f.C}
		}
		i := v.(Int)
		if i.S == nil {
			return in.cInt(-i.C, i.W, i.Signed)
		}
		if in.intMode {
			return in.unopI(x.Op, i)
		}
		return in.mkInt(in.ts.Op("bvneg", i.W, i.S), i.W, i.Signed)
	case token.XOR:
		i := v.(Int)
		if i.S == nil {
			return in.cInt(^i.C, i.W, i.Signed)
		}
		if in.intMode {
			return in.unopI(x.Op, i)
		}
		return in.mkInt(in.ts.Op("bvnot", i.W, i.S), i.W, i.Signed)
	case token.ARROW:
		ch, _ := v.(*ChanV)
		val, ok := in.sched.recv(ch)
		if x.CommaOk {
			return Tuple{val, Bool{C: ok}}
		}
		return val
	}
	panic(unsupported("unop " + x.Op.String()))
}

func (in *Interp) binop(op token.Token, a, b V, t types.Type) V {
	if isFloatType(t) {
		return in.floatBinop(op, a, b)
	}
	switch x := a.(type) {
	case Int:
		y := b.(Int)
		return in.intBinop(op, x, y)
	case Bool:
		y := b.(Bool)
		switch op {
		case token.EQL:
			return in.mkBool(in.ts.Op("=", 0, in.bterm(x), in.bterm(y)))
		case token.NEQ:
			return in.mkBool(in.ts.Op("not", 0, in.ts.Op("=", 0, in.bterm(x), in.bterm(y))))
		case token.AND, token.LAND:
			return in.mkBool(in.ts.Op("and", 0, in.bterm(x), in.bterm(y)))
		case token.OR, token.LOR:
			return in.mkBool(in.ts.Op("or", 0, in.bterm(x), in.bterm(y)))
		}
	case Str:
		y := b.(Str)
		switch op {
		case token.ADD:
			if x.B == nil && y.B == nil {
				return Str{S: x.S + y.S}
			}
			return Str{B: append(append([]V{}, in.strBytes(x)...), in.strBytes(y)...)}
		case token.EQL:
			return in.eq(a, b)
		case token.NEQ:
			return in.not(in.eq(a, b))
		case token.LSS, token.GTR, token.LEQ, token.GEQ:
			if x.B == nil && y.B == nil {
				var r bool
				switch op {
				case token.LSS:
					r = x.S < y.S
				case token.GTR:
					r = x.S > y.S
				case token.LEQ:
					r = x.S <= y.S
				case token.GEQ:
					r = x.S >= y.S
				}
				return Bool{C: r}
			}
			panic(unsupported("symbolic string ordering"))
		}
	}
	switch op {
	case token.EQL:
		return in.eq(a, b)
	case token.NEQ:
		return in.not(in.eq(a, b))
	}
	panic(unsupported(fmt.Sprintf("binop %s on %T", op, a)))
}

func (in *Interp) not(b Bool) Bool {
	if b.S == nil {
		return Bool{C: !b.C}
	}
	return in.mkBool(in.ts.Op("not", 0, b.S))
}

func (in *Interp) intBinop(op token.Token, x, y Int) V {
	w, s := x.W, x.Signed
	if in.intMode && (x.S != nil || y.S != nil) {
		if op == token.SHL || op == token.SHR {
			return in.shiftI(op, x, y)
		}
		return in.intBinopI(op, x, y)
	}
	// shifts: y may have different width
	if op == token.SHL || op == token.SHR {
		if x.S == nil && y.S == nil {
			sh := y.C
			if y.Signed && signExt(y.C, y.W) < 0 {
				panic(goPanic{Str{S: "negative shift"}})
			}
			var r uint64
			if op == token.SHL {
				if sh >= 64 {
					r = 0
				} else {
					r = x.C << sh
				}
			} else if s {
				if sh >= 64 {
					sh = 63
				}
				r = uint64(signExt(x.C, w) >> sh)
			} else {
				if sh >= 64 {
					r = 0
				} else {
					r = x.C >> sh
				}
			}
			return in.cInt(r, w, s)
		}
		yt := in.term(y)
		// resize shift amount to w (saturating semantics handled by SMT: bvshl by >= w gives 0)
		if y.W < w {
			yt = in.ts.Op(fmt.Sprintf("(_ zero_extend %d)", w-y.W), w, yt)
		} else if y.W > w {
			// if high bits set, result 0: use ite
			hi := in.ts.Op(fmt.Sprintf("(_ extract %d %d)", y.W-1, w), y.W-w, yt)
			lo := in.ts.Op(fmt.Sprintf("(_ extract %d 0)", w-1), w, yt)
			big := in.ts.Op("not", 0, in.ts.Op("=", 0, hi, in.ts.ConstU(0, y.W-w)))
			yt = in.ts.Op("ite", w, big, in.ts.ConstU(uint64(w), w), lo)
		}
		o := "bvshl"
		if op == token.SHR {
			if s {
				o = "bvashr"
			} else {
				o = "bvlshr"
			}
		}
		return in.mkInt(in.ts.Op(o, w, in.term(x), yt), w, s)
	}
	if x.S == nil && y.S == nil {
		a, b := x.C, y.C
		sa, sb := signExt(a, w), signExt(b, w)
		switch op {
		case token.ADD:
			return in.cInt(a+b, w, s)
		case token.SUB:
			return in.cInt(a-b, w, s)
		case token.MUL:
			return in.cInt(a*b, w, s)
		case token.QUO:
			if b == 0 {
				panic(goPanic{Str{S: "integer divide by zero"}})
			}
			if s {
				if sb == -1 {
					return in.cInt(uint64(-sa), w, s)
				}
				return in.cInt(uint64(sa/sb), w, s)
			}
			return in.cInt(a/b, w, s)
		case token.REM:
			if b == 0 {
				panic(goPanic{Str{S: "integer divide by zero"}})
			}
			if s {
				if sb == -1 {
					return in.cInt(0, w, s)
				}
				return in.cInt(uint64(sa%sb), w, s)
			}
			return in.cInt(a%b, w, s)
		case token.AND:
			return in.cInt(a&b, w, s)
		case token.OR:
			return in.cInt(a|b, w, s)
		case token.XOR:
			return in.cInt(a^b, w, s)
		case token.AND_NOT:
			return in.cInt(a&^b, w, s)
		case token.EQL:
			return Bool{C: a == b}
		case token.NEQ:
			return Bool{C: a != b}
		case token.LSS:
			if s {
				return Bool{C: sa < sb}
			}
			return Bool{C: a < b}
		case token.LEQ:
			if s {
				return Bool{C: sa <= sb}
			}
			return Bool{C: a <= b}
		case token.GTR:
			if s {
				return Bool{C: sa > sb}
			}
			return Bool{C: a > b}
		case token.GEQ:
			if s {
				return Bool{C: sa >= sb}
			}
			return Bool{C: a >= b}
		}
		panic(unsupported("int binop " + op.String()))
	}
	if r, ok := in.divCmpConst(op, x, y); ok {
		return r
	}
	xt, yt := in.term(x), in.term(y)
	ar := func(o string) V { return in.mkInt(in.ts.Op(o, w, xt, yt), w, s) }
	cmp := func(ou, os string) V {
		if s {
			return in.mkBool(in.ts.Op(os, 0, xt, yt))
		}
		return in.mkBool(in.ts.Op(ou, 0, xt, yt))
	}
	switch op {
	case token.ADD:
		return ar("bvadd")
	case token.SUB:
		return ar("bvsub")
	case token.MUL:
		return ar("bvmul")
	case token.QUO, token.REM:
		// division by zero is a panic branch
		isZero := in.mkBool(in.ts.Op("=", 0, yt, in.ts.ConstU(0, w)))
		if in.truth(isZero) {
			panic(goPanic{Str{S: "integer divide by zero"}})
		}
		if !s {
			o := "bvurem"
			if op == token.QUO {
				o = "bvudiv"
			}
			if nt := in.narrowUDiv(o, w, xt, yt); nt != nil {
				return in.mkInt(nt, w, s)
			}
		}
		if op == token.QUO {
			if s {
				return ar("bvsdiv")
			}
			return ar("bvudiv")
		}
		if s {
			return ar("bvsrem")
		}
		return ar("bvurem")
	case token.AND:
		return ar("bvand")
	case token.OR:
		return ar("bvor")
	case token.XOR:
		return ar("bvxor")
	case token.AND_NOT:
		return in.mkInt(in.ts.Op("bvand", w, xt, in.ts.Op("bvnot", w, yt)), w, s)
	case token.EQL:
		return in.mkBool(in.ts.Op("=", 0, xt, yt))
	case token.NEQ:
		return in.mkBool(in.ts.Op("not", 0, in.ts.Op("=", 0, xt, yt)))
	case token.LSS:
		return cmp("bvult", "bvslt")
	case token.LEQ:
		return cmp("bvule", "bvsle")
	case token.GTR:
		return cmp("bvugt", "bvsgt")
	case token.GEQ:
		return cmp("bvuge", "bvsge")
	}
	panic(unsupported("sym int binop " + op.String()))
}

// ---- equality ----

func (in *Interp) eq(a, b V) Bool {
	switch x := a.(type) {
	case Int:
		y := b.(Int)
		if x.S == nil && y.S == nil {
			return Bool{C: x.C == y.C}
		}
		if in.intMode {
			return in.mkBool(in.ts.Op("=", 0, in.iterm(x), in.iterm(y)))
		}
		return in.mkBool(in.ts.Op("=", 0, in.term(x), in.term(y)))
	case Bool:
		y := b.(Bool)
		return in.mkBool(in.ts.Op("=", 0, in.bterm(x), in.bterm(y)))
	case Str:
		y := b.(Str)
		if x.B == nil && y.B == nil {
			return Bool{C: x.S == y.S}
		}
		xb, yb := in.strBytes(x), in.strBytes(y)
		if len(xb) != len(yb) {
			return Bool{C: false}
		}
		if in.intMode {
			if in.spec != nil && in.spec.WordByteEq {
				return in.mkBool(in.eqByteSeqI(xb, yb))
			}
			if t, ok := in.bytesEqGrouped(xb, yb); ok {
				return in.mkBool(t)
			}
		}
		acc := in.ts.True()
		for i := range xb {
			acc = in.ts.Op("and", 0, acc, in.bterm(in.eq(xb[i], yb[i])))
		}
		return in.mkBool(acc)
	case Ptr:
		y, _ := b.(Ptr)
		return Bool{C: x == y}
	case Struct:
		y := b.(Struct)
		acc := in.ts.True()
		for i := range x {
			acc = in.ts.Op("and", 0, acc, in.bterm(in.eq(x[i], y[i])))
		}
		return in.mkBool(acc)
	case Array:
		y := b.(Array)
		acc := in.ts.True()
		for i := range x {
			acc = in.ts.Op("and", 0, acc, in.bterm(in.eq(x[i], y[i])))
		}
		return in.mkBool(acc)
	case Iface:
		y, ok := b.(Iface)
		if !ok {
			return Bool{C: x.T == nil && b == nil}
		}
		if x.T == nil || y.T == nil {
			return Bool{C: x.T == nil && y.T == nil}
		}
		if !types.Identical(x.T, y.T) {
			return Bool{C: false}
		}
		return in.eq(x.V, y.V)
	case *ErrVal:
		y, _ := b.(*ErrVal)
		return Bool{C: x == y}
	case *MapV:
		y, _ := b.(*MapV)
		return Bool{C: x == y}
	case *ChanV:
		y, _ := b.(*ChanV)
		return Bool{C: x == y}
	case Slice:
		// only comparison with nil is legal
		return Bool{C: x.Nil}
	case AbsSlice:
		return Bool{C: false}
	case nil:
		switch y := b.(type) {
		case nil:
			return Bool{C: true}
		case Iface:
			return Bool{C: y.T == nil}
		case Ptr:
			return Bool{C: y == nil}
		case *MapV:
			return Bool{C: y == nil}
		case Slice:
			return Bool{C: y.Nil}
		case AbsSlice:
			return Bool{C: false}
		case *Closure:
			return Bool{C: y == nil}
		case *NativeFn:
			return Bool{C: y == nil}
		case *ssa.Function:
			return Bool{C: y == nil}
		case *Bound:
			return Bool{C: y == nil}
		case *ChanV:
			return Bool{C: y == nil}
		}
	case *Closure:
		return Bool{C: b == nil && x == nil}
	case *NativeFn:
		return Bool{C: b == nil && x == nil}
	case *Bound:
		return Bool{C: b == nil && x == nil}
	case *ssa.Function:
		return Bool{C: b == nil && x == nil}
	case Opaque:
		return Bool{C: false}
	}
	if b == nil {
		return in.eq(b, a)
	}
	panic(unsupported(fmt.Sprintf("eq on %T", a)))
}

func (in *Interp) strBytes(s Str) []V {
	if s.B != nil {
		return s.B
	}
	out := make([]V, len(s.S))
	for i := 0; i < len(s.S); i++ {
		out[i] = in.cInt(uint64(s.S[i]), 8, false)
	}
	return out
}

// ---- conversions ----

func (in *Interp) convert(v V, from, to types.Type) V {
	if r, ok := in.floatConvert(v, from, to); ok {
		return r
	}
	if fw, fs, ok := intInfo(from); ok {
		if tw, tsg, ok2 := intInfo(to); ok2 {
			i := v.(Int)
			_ = fw
			if i.S == nil {
				c := i.C
				if fs {
					c = uint64(signExt(c, i.W))
				}
				return in.cInt(c, tw, tsg)
			}
			if in.intMode {
				return in.convertI(i, tw, tsg)
			}
			t := i.S
			switch {
			case tw < i.W:
				t = in.ts.Op(fmt.Sprintf("(_ extract %d 0)", tw-1), tw, t)
			case tw > i.W:
				if fs {
					t = in.ts.Op(fmt.Sprintf("(_ sign_extend %d)", tw-i.W), tw, t)
				} else {
					t = in.ts.Op(fmt.Sprintf("(_ zero_extend %d)", tw-i.W), tw, t)
				}
			}
			return in.mkInt(t, tw, tsg)
		}
		if b, ok := to.Underlying().(*types.Basic); ok && b.Info()&types.IsString != 0 {
			i := v.(Int)
			if i.S != nil {
				panic(unsupported("int->string symbolic"))
			}
			return Str{S: string(rune(i.C))}
		}
		if b, ok := to.Underlying().(*types.Basic); ok && b.Info()&types.IsFloat != 0 {
			return Opaque{"float"}
		}
		panic(unsupported("convert int -> " + to.String()))
	}
	switch f := from.Underlying().(type) {
	case *types.Slice:
		// []byte -> string
		if b, ok := to.Underlying().(*types.Basic); ok && b.Info()&types.IsString != 0 {
			sl := v.(Slice)
			return in.bytesToStr(sl.A)
		}
		_ = f
	case *types.Basic:
		if f.Info()&types.IsString != 0 {
			if _, ok := to.Underlying().(*types.Slice); ok {
				s := v.(Str)
				bs := in.strBytes(s)
				a := make([]V, len(bs))
				copy(a, bs)
				return Slice{A: a}
			}
			if b, ok := to.Underlying().(*types.Basic); ok && b.Info()&types.IsString != 0 {
				return v
			}
		}
	case *types.Pointer:
		return v
	}
	panic(unsupported("convert " + from.String() + " -> " + to.String()))
}

func (in *Interp) bytesToStr(a []V) Str {
	conc := true
	for _, e := range a {
		if e.(Int).S != nil {
			conc = false
			break
		}
	}
	if conc {
		var sb strings.Builder
		for _, e := range a {
			sb.WriteByte(byte(e.(Int).C))
		}
		return Str{S: sb.String()}
	}
	b := make([]V, len(a))
	copy(b, a)
	if len(b) == 0 {
		return Str{}
	}
	return Str{B: b}
}

func (in *Interp) typeAssert(fr *frame, x *ssa.TypeAssert) V {
	v := in.get(fr, x.X)
	ifc, _ := v.(Iface)
	var ok bool
	var res V
	if _, isIface := x.AssertedType.Underlying().(*types.Interface); isIface {
		if ifc.T != nil {
			ok = types.Implements(ifc.T, x.AssertedType.Underlying().(*types.Interface))
			if _, isOp := ifc.V.(Opaque); isOp {
				ok = true
			}
			if _, isErr := ifc.V.(*ErrVal); isErr {
				ok = x.AssertedType.String() == "error"
			}
			if _, isCtx := ifc.V.(*CtxV); isCtx {
				ok = x.AssertedType.String() == "context.Context"
			}
		}
		res = ifc
		if !ok {
			res = Iface{}
		}
	} else {
		ok = ifc.T != nil && types.Identical(ifc.T, x.AssertedType)
		if ok {
			res = ifc.V
		} else {
			res = zero(x.AssertedType)
		}
	}
	if x.CommaOk {
		return Tuple{res, Bool{C: ok}}
	}
	if !ok {
		panic(goPanic{Str{S: fmt.Sprintf("interface conversion: %v is not %s", ifc.T, x.AssertedType)}})
	}
	return res
}
