package main

import (
	"os"
	"runtime/pprof"
)

// startProfile: GOSYM_PROF=<file> writes a CPU profile of the whole run (engine development aid).
func startProfile() func() {
	p := os.Getenv("GOSYM_PROF")
	if p == "" {
		return func() {}
	}
	f, err := os.Create(p)
	if err != nil {
		return func() {}
	}
	pprof.StartCPUProfile(f)
	return func() { pprof.StopCPUProfile(); f.Close() }
}
