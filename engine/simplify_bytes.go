package main

import (
	"fmt"
	"math/big"
)

// Byte split / re-assembly recognition for the bit-vector encoding.
//
// Code such as binary.BigEndian.AppendUint64 followed (after a trip through a database or a map) by
// binary.BigEndian.Uint64 turns a w-bit term x into w/8 terms `extract[7:0](x >> 8k)` and back into
// `zext(b0) | zext(b1)<<8 | ...`. The result is x, but the solver has to rediscover that on every query and the chains
// nest with every store/load round trip. recompose recognises the complete re-assembly and returns x itself.

type lane struct {
	src *Term // nil: zero byte
	k   int   // byte k of src (0 = least significant)
}

type laneInfo struct {
	ok    bool
	lanes []lane
}

// byteOf: is b (8 bits) byte k of some wider term?
func byteOf(b *Term) (*Term, int, bool) {
	if b.w != 8 || b.op != "(_ extract 7 0)" {
		return nil, 0, false
	}
	x := b.args[0]
	if x.op == "bvlshr" && x.args[1].op == "const" {
		sh := x.args[1].val
		if sh.IsUint64() && sh.Uint64()%8 == 0 && sh.Uint64() < uint64(x.w) {
			return x.args[0], int(sh.Uint64() / 8), true
		}
		return nil, 0, false
	}
	return x, 0, true
}

func (ts *TermStore) lanesOf(t *Term) ([]lane, bool) {
	if t.w < 16 || t.w%8 != 0 {
		return nil, false
	}
	if ts.laneMemo == nil {
		ts.laneMemo = map[int]laneInfo{}
	}
	if li, ok := ts.laneMemo[t.id]; ok {
		return li.lanes, li.ok
	}
	n := t.w / 8
	var res []lane
	ok := false
	switch {
	case t.op == fmt.Sprintf("(_ zero_extend %d)", t.w-8):
		if src, k, isB := byteOf(t.args[0]); isB {
			res = make([]lane, n)
			res[0] = lane{src, k}
			ok = true
		}
	case t.op == "bvshl" && t.args[1].op == "const":
		sh := t.args[1].val
		if sh.IsUint64() && sh.Uint64()%8 == 0 && sh.Uint64() < uint64(t.w) {
			if in, isL := ts.lanesOf(t.args[0]); isL {
				j := int(sh.Uint64() / 8)
				res = make([]lane, n)
				for i := 0; i+j < n; i++ {
					res[i+j] = in[i]
				}
				ok = true
			}
		}
	case t.op == "bvor":
		a, okA := ts.lanesOf(t.args[0])
		b, okB := ts.lanesOf(t.args[1])
		if okA && okB {
			res = make([]lane, n)
			ok = true
			for i := 0; i < n; i++ {
				switch {
				case a[i].src == nil:
					res[i] = b[i]
				case b[i].src == nil:
					res[i] = a[i]
				default:
					ok = false
				}
			}
		}
	}
	if !ok {
		res = nil
	}
	ts.laneMemo[t.id] = laneInfo{ok, res}
	return res, ok
}

// recompose returns x if t is the complete byte-wise re-assembly of x (same width), else t.
func (ts *TermStore) recompose(t *Term) *Term {
	ls, ok := ts.lanesOf(t)
	if !ok {
		return t
	}
	src := ls[0].src
	if src == nil || src.w != t.w {
		return t
	}
	for i, l := range ls {
		if l.src != src || l.k != i {
			return t
		}
	}
	return src
}

var _ = big.NewInt
