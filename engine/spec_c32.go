package main

func init() {
	files := []string{"pubsub/c32_batch.go"}
	timerStub := map[string]string{
		"(*github.com/ava-labs/avalanchego/utils/timer.Timer).Dispatch":     "c32timerNoop",
		"(*github.com/ava-labs/avalanchego/utils/timer.Timer).Stop":         "c32timerNoop",
		"(*github.com/ava-labs/avalanchego/utils/timer.Timer).Cancel":       "c32timerNoop",
		"(*github.com/ava-labs/avalanchego/utils/timer.Timer).SetTimeoutIn": "c32timerArm",
	}
	stubs := []string{"avalanchego timer.Timer: arming/cancelling/stopping/dispatching do nothing in the engine run (natively the real timer runs with a one-hour timeout); a timer expiry is a harness operation that executes a copy of the callback body registered in NewMessageBuffer (lock; return if closed or nothing pending; clearPending)", "logging = no-op"}
	register(PropSpec{ID: "C32", Harnesses: []HarnessSpec{
		{Name: "size", Pkg: "pubsub", Files: files, Entry: "VerifC32Size", Sched: true, IntMode: true, AbsMake: true, Redirects: timerStub,
			Reach: []string{"accepted", "rejected"}, Stubs: append([]string{"message contents are abstract (only lengths are modelled), so is the content of the encoded batches"}, stubs...),
			Assumptions: []string{"1 <= maxSize <= 2*maxMessageLen", "calls are sequential (Send/Close/timer callback hold the buffer lock for their whole body)"},
			Outside:     []string{"more than maxMessages messages, messages longer than maxMessageLen", "a queue that fills up (harness order)"}},
		{Name: "order", Pkg: "pubsub", Files: files, Entry: "VerifC32Order", Sched: true, Redirects: timerStub,
			Reach: []string{"rejected", "dropped-on-full-queue"}, Stubs: stubs,
			Assumptions: []string{"nobody reads the queue while the history runs (it is read after Close)", "calls are sequential"},
			Outside:     []string{"more than maxOps operations, messages longer than maxMessageLen bytes, maxSize outside 3..6 (thorough 3..8)", "queue capacities other than 1 and never-full"}},
		{Name: "codec", Pkg: "pubsub", Files: files, Entry: "VerifC32Codec", AbsMake: true,
			Outside: []string{"more than maxMessages messages, message lengths other than 0, 1, 2, 130"}},
	}})
}
