package main

import (
	"fmt"
	"go/token"
	"math/big"
	"math/bits"
)

// INT encoding: symbolic integers are SMT Int terms holding the mathematical value
// (unsigned: 0..2^w-1, signed: -2^(w-1)..2^(w-1)-1). Wrap-around is explicit.

type part struct {
	src  *Term // source term (a w-bit unsigned value)
	from int   // byte index within src
	to   int   // byte index within this value
}

func (ts *TermStore) IntC(v *big.Int) *Term { return ts.mk("iconst", -1, "", new(big.Int).Set(v)) }
func (ts *TermStore) IntU(v uint64) *Term  { return ts.IntC(new(big.Int).SetUint64(v)) }

func pow2(k int) *big.Int { return new(big.Int).Lsh(big.NewInt(1), uint(k)) }

func (in *Interp) iterm(i Int) *Term {
	if i.S != nil {
		return i.S
	}
	if i.Signed {
		return in.ts.IntC(big.NewInt(signExt(i.C, i.W)))
	}
	return in.ts.IntU(i.C)
}

// maxVal returns an upper bound of an unsigned value from its known-zero mask.
func maxVal(i Int) *big.Int {
	if i.S == nil {
		return new(big.Int).SetUint64(i.C)
	}
	m := ^i.KZ & maskU(i.W)
	return new(big.Int).SetUint64(m)
}

func (in *Interp) iop(op string, args ...*Term) *Term {
	// constant folding for common integer ops
	allc := true
	for _, a := range args {
		if a.op != "iconst" {
			allc = false
		}
	}
	if allc && len(args) == 2 {
		a, b := args[0].val, args[1].val
		r := new(big.Int)
		switch op {
		case "+":
			return in.ts.IntC(r.Add(a, b))
		case "-":
			return in.ts.IntC(r.Sub(a, b))
		case "*":
			return in.ts.IntC(r.Mul(a, b))
		case "div":
			if b.Sign() > 0 {
				return in.ts.IntC(r.Div(a, b)) // Euclidean
			}
		case "mod":
			if b.Sign() > 0 {
				return in.ts.IntC(r.Mod(a, b))
			}
		}
	}
	switch op {
	case "+":
		if args[0].op == "iconst" && args[0].val.Sign() == 0 {
			return args[1]
		}
		if args[1].op == "iconst" && args[1].val.Sign() == 0 {
			return args[0]
		}
	case "*":
		if args[1].op == "iconst" && args[1].val.Cmp(big.NewInt(1)) == 0 {
			return args[0]
		}
		if args[0].op == "iconst" && args[0].val.Cmp(big.NewInt(1)) == 0 {
			return args[1]
		}
	case "div":
		if args[1].op == "iconst" && args[1].val.Cmp(big.NewInt(1)) == 0 {
			return args[0]
		}
	}
	return in.ts.Op(op, -1, args...)
}

func (in *Interp) wrapU(t *Term, w int, bound *big.Int) *Term {
	if bound != nil && bound.Cmp(pow2(w)) < 0 {
		return t
	}
	if t.op == "iconst" {
		return in.iop("mod", t, in.ts.IntC(pow2(w)))
	}
	// wrap elimination: if the path condition excludes overflow, no mod is emitted
	if in.ex.implied(in.ts.Op("<", 0, t, in.ts.IntC(pow2(w)))) {
		return t
	}
	return in.iop("mod", t, in.ts.IntC(pow2(w)))
}

// wrapUSub wraps x-y (may be negative).
func (in *Interp) wrapUSub(t *Term, w int) *Term {
	if t.op != "iconst" && in.ex.implied(in.ts.Op(">=", 0, t, in.ts.IntU(0))) {
		return t
	}
	return in.iop("mod", t, in.ts.IntC(pow2(w)))
}

func (in *Interp) symI(t *Term, w int, signed bool, kz uint64, parts []part) V {
	if t.op == "iconst" {
		if signed {
			return in.cInt(uint64(t.val.Int64()), w, true)
		}
		return in.cInt(t.val.Uint64(), w, false)
	}
	return Int{W: w, Signed: signed, S: t, KZ: kz, Parts: parts}
}

func (in *Interp) wrapS(t *Term, w int) *Term {
	h := in.ts.IntC(pow2(w - 1))
	if t.op != "iconst" {
		inRange := in.ts.Op("and", 0, in.ts.Op(">=", 0, t, in.ts.IntC(new(big.Int).Neg(pow2(w-1)))), in.ts.Op("<", 0, t, h))
		if in.ex.implied(inRange) {
			return t
		}
	}
	return in.iop("-", in.iop("mod", in.iop("+", t, h), in.ts.IntC(pow2(w))), h)
}

func (in *Interp) intBinopI(op token.Token, x, y Int) V {
	w, s := x.W, x.Signed
	xt, yt := in.iterm(x), in.iterm(y)
	cmp := func(o string) V { return in.mkBool(in.ts.Op(o, 0, xt, yt)) }
	switch op {
	case token.EQL:
		return cmp("=")
	case token.NEQ:
		return in.mkBool(in.ts.Op("not", 0, in.ts.Op("=", 0, xt, yt)))
	case token.LSS:
		return cmp("<")
	case token.LEQ:
		return cmp("<=")
	case token.GTR:
		return cmp(">")
	case token.GEQ:
		return cmp(">=")
	}
	if s {
		switch op {
		case token.ADD:
			return in.symI(in.wrapS(in.iop("+", xt, yt), w), w, true, 0, nil)
		case token.SUB:
			return in.symI(in.wrapS(in.iop("-", xt, yt), w), w, true, 0, nil)
		case token.MUL:
			return in.symI(in.wrapS(in.iop("*", xt, yt), w), w, true, 0, nil)
		case token.QUO, token.REM:
			isZero := in.mkBool(in.ts.Op("=", 0, yt, in.ts.IntU(0)))
			if in.truth(isZero) {
				panic(goPanic{Str{S: "integer divide by zero"}})
			}
			// Go truncates toward zero; SMT-LIB div is Euclidean. Build the truncated quotient from |x| div |y|.
			z := in.ts.IntU(0)
			neg := func(t *Term) *Term { return in.iop("-", z, t) }
			abs := func(t *Term) *Term {
				if t.op == "iconst" {
					return in.ts.IntC(new(big.Int).Abs(t.val))
				}
				return in.ts.Op("ite", -1, in.ts.Op(">=", 0, t, z), t, neg(t))
			}
			qa := in.iop("div", abs(xt), abs(yt))
			var sameSign *Term
			if yt.op == "iconst" {
				if yt.val.Sign() > 0 {
					sameSign = in.ts.Op(">=", 0, xt, z)
				} else {
					sameSign = in.ts.Op("<=", 0, xt, z)
				}
			} else {
				sameSign = in.ts.Op("=", 0, in.ts.Op(">=", 0, xt, z), in.ts.Op(">=", 0, yt, z))
			}
			q := in.ts.Op("ite", -1, sameSign, qa, neg(qa))
			if op == token.QUO {
				return in.symI(in.wrapS(q, w), w, true, 0, nil)
			}
			return in.symI(in.iop("-", xt, in.iop("*", q, yt)), w, true, 0, nil)
		}
		panic(unsupported("INT mode: signed " + op.String()))
	}
	switch op {
	case token.ADD:
		b := new(big.Int).Add(maxVal(x), maxVal(y))
		// disjoint bit ranges: behaves like OR, keep parts
		if (^x.KZ&^y.KZ)&maskU(w) == 0 {
			return in.assemble(in.iop("+", xt, yt), w, x.KZ&y.KZ, append(append([]part{}, x.Parts...), y.Parts...))
		}
		return in.symI(in.wrapU(in.iop("+", xt, yt), w, b), w, false, 0, nil)
	case token.SUB:
		if x.S == nil && new(big.Int).SetUint64(x.C).Cmp(maxVal(y)) >= 0 {
			return in.symI(in.iop("-", xt, yt), w, false, 0, nil)
		}
		return in.symI(in.wrapUSub(in.iop("-", xt, yt), w), w, false, 0, nil)
	case token.MUL:
		b := new(big.Int).Mul(maxVal(x), maxVal(y))
		if b.Cmp(pow2(w)) < 0 {
			return in.symI(in.iop("*", xt, yt), w, false, 0, nil)
		}
		if x.S != nil && y.S != nil {
			// symbolic*symbolic: asking the solver whether it can overflow is itself non-linear; keep the explicit wrap
			return in.symI(in.iop("mod", in.iop("*", xt, yt), in.ts.IntC(pow2(w))), w, false, 0, nil)
		}
		return in.symI(in.wrapU(in.iop("*", xt, yt), w, b), w, false, 0, nil)
	case token.QUO, token.REM:
		isZero := in.mkBool(in.ts.Op("=", 0, yt, in.ts.IntU(0)))
		if in.truth(isZero) {
			panic(goPanic{Str{S: "integer divide by zero"}})
		}
		if op == token.QUO {
			return in.symI(in.iop("div", xt, yt), w, false, x.KZ&^(maskU(w)>>uint(bits.LeadingZeros64(^x.KZ&maskU(w)))), nil)
		}
		return in.symI(in.iop("mod", xt, yt), w, false, 0, nil)
	case token.OR, token.XOR:
		if (^x.KZ&^y.KZ)&maskU(w) == 0 {
			return in.assemble(in.iop("+", xt, yt), w, x.KZ&y.KZ, append(append([]part{}, x.Parts...), y.Parts...))
		}
		panic(unsupported("INT mode: or/xor of overlapping values"))
	case token.AND:
		// mask by constant 2^k-1
		if y.S == nil && y.C&(y.C+1) == 0 {
			k := bits.Len64(y.C)
			return in.symI(in.iop("mod", xt, in.ts.IntC(pow2(k))), w, false, x.KZ|^y.C, nil)
		}
		if x.S == nil && x.C&(x.C+1) == 0 {
			k := bits.Len64(x.C)
			return in.symI(in.iop("mod", yt, in.ts.IntC(pow2(k))), w, false, y.KZ|^x.C, nil)
		}
		panic(unsupported("INT mode: and with non-mask"))
	}
	panic(unsupported("INT mode: " + op.String()))
}

// assemble recognises a full byte-wise reassembly of one source value.
func (in *Interp) assemble(t *Term, w int, kz uint64, parts []part) V {
	if len(parts) == w/8 && len(parts) > 1 {
		src := parts[0].src
		seen := map[int]bool{}
		ok := true
		for _, p := range parts {
			if p.src != src || p.from != p.to || seen[p.to] {
				ok = false
				break
			}
			seen[p.to] = true
		}
		if ok && src.w == -1 && in.srcWidth[src] == w {
			return in.symI(src, w, false, 0, nil)
		}
	}
	return in.symI(t, w, false, kz, parts)
}

func (in *Interp) shiftI(op token.Token, x, y Int) V {
	if y.S != nil {
		panic(unsupported("INT mode: symbolic shift amount"))
	}
	k := int(y.C)
	w := x.W
	xt := in.iterm(x)
	if x.Signed {
		panic(unsupported("INT mode: signed shift"))
	}
	if op == token.SHL {
		if k >= w {
			return in.cInt(0, w, false)
		}
		b := new(big.Int).Lsh(maxVal(x), uint(k))
		var parts []part
		if k%8 == 0 {
			for _, p := range x.Parts {
				if p.to+k/8 < w/8 {
					parts = append(parts, part{p.src, p.from, p.to + k/8})
				}
			}
		}
		kz := (x.KZ << uint(k)) | (uint64(1)<<uint(k) - 1)
		return in.symI(in.wrapU(in.iop("*", xt, in.ts.IntC(pow2(k))), w, b), w, false, kz, parts)
	}
	if k >= w {
		return in.cInt(0, w, false)
	}
	kz := (x.KZ >> uint(k)) | ^(maskU(w) >> uint(k))
	r := in.symI(in.iop("div", xt, in.ts.IntC(pow2(k))), w, false, kz, nil)
	if ri, ok := r.(Int); ok && ri.S != nil && k%8 == 0 {
		// remember provenance: this is src >> k; a later truncation to 8 bits yields byte k/8 of src
		ri.shrSrc, ri.shrBytes = in.rootSrc(x), k/8
		in.noteWidth(ri.shrSrc, x.W)
		return ri
	}
	return r
}

func (in *Interp) rootSrc(x Int) *Term { return x.S }

func (in *Interp) noteWidth(t *Term, w int) {
	if in.srcWidth == nil {
		in.srcWidth = map[*Term]int{}
	}
	in.srcWidth[t] = w
}

func (in *Interp) convertI(i Int, tw int, tsg bool) V {
	t := in.iterm(i)
	if i.Signed || tsg {
		if !i.Signed && tsg {
			// unsigned -> signed: reinterpret when >= 2^(tw-1)
			u := t
			if tw < i.W {
				u = in.iop("mod", t, in.ts.IntC(pow2(tw)))
			}
			h := in.ts.IntC(pow2(tw - 1))
			return in.symI(in.ts.Op("ite", -1, in.ts.Op(">=", 0, u, h), in.iop("-", u, in.ts.IntC(pow2(tw))), u), tw, true, 0, nil)
		}
		if i.Signed && !tsg {
			return in.symI(in.iop("mod", t, in.ts.IntC(pow2(tw))), tw, false, 0, nil)
		}
		if tw >= i.W {
			return in.symI(t, tw, true, 0, nil)
		}
		return in.symI(in.wrapS(t, tw), tw, true, 0, nil)
	}
	if tw >= i.W {
		return in.symI(t, tw, false, i.KZ|^maskU(i.W), i.Parts)
	}
	// truncation
	if maxVal(i).Cmp(pow2(tw)) < 0 {
		parts := i.Parts
		if tw == 8 && i.shrSrc != nil {
			parts = []part{{i.shrSrc, i.shrBytes, 0}}
		}
		return in.symI(t, tw, false, i.KZ|^maskU(tw), parts)
	}
	r := in.symI(in.iop("mod", t, in.ts.IntC(pow2(tw))), tw, false, i.KZ|^maskU(tw), nil)
	if ri, ok := r.(Int); ok && ri.S != nil && tw == 8 {
		if i.shrSrc != nil {
			ri.Parts = []part{{i.shrSrc, i.shrBytes, 0}}
		} else {
			in.noteWidth(i.S, i.W)
			ri.Parts = []part{{i.S, 0, 0}}
		}
		return ri
	}
	return r
}

func (in *Interp) unopI(op token.Token, i Int) V {
	t := in.iterm(i)
	switch op {
	case token.SUB:
		if i.Signed {
			return in.symI(in.wrapS(in.iop("-", in.ts.IntU(0), t), i.W), i.W, true, 0, nil)
		}
		return in.symI(in.iop("mod", in.iop("-", in.ts.IntU(0), t), in.ts.IntC(pow2(i.W))), i.W, false, 0, nil)
	case token.XOR:
		if !i.Signed {
			return in.symI(in.iop("-", in.ts.IntC(new(big.Int).Sub(pow2(i.W), big.NewInt(1))), t), i.W, false, 0, nil)
		}
	}
	panic(unsupported("INT mode unop " + op.String()))
}

func (in *Interp) rangeAssume(v *Term, w int, signed bool) {
	if signed {
		in.ex.assume(in.ts.Op("and", 0, in.ts.Op(">=", 0, v, in.ts.IntC(new(big.Int).Neg(pow2(w-1)))), in.ts.Op("<", 0, v, in.ts.IntC(pow2(w-1)))))
		return
	}
	in.ex.assume(in.ts.Op("and", 0, in.ts.Op(">=", 0, v, in.ts.IntU(0)), in.ts.Op("<", 0, v, in.ts.IntC(pow2(w)))))
}

var _ = fmt.Sprint
