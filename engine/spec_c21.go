package main

func init() {
	register(PropSpec{ID: "C21", Harnesses: []HarnessSpec{
		{Name: "handover", Pkg: "snow", Files: []string{"snow/c20_lifecycle.go"}, Entry: "VerifC21", Sched: true, Preempt: [2]int{0, 1},
			Reach:       []string{"accepted-during-sync", "reprocessed", "reverified", "unhealthy"},
			Stubs:       []string{"as C20: harness Chain (validity bit per block, records VerifyBlock/AcceptBlock), map chain index, VM assembled as Initialize does without config/p2p", "the state syncer is the harness: it calls StartStateSync(A1) and FinishStateSync(b, b, b) for an accepted block b between the start target and the tip"},
			Assumptions: []string{"the engine obeys the snowman contract and the network accepts only valid blocks", "FinishStateSync is called once"},
			Outside:     []string{"more than syncCalls engine calls during sync / callsAfterSync afterwards; block trees other than G-A1-(A2-A3, C2-C3); more than one invalid block", "schedules beyond the preemption bound"}},
	}})
}
