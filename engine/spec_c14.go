package main

func init() {
	register(PropSpec{ID: "C14", Harnesses: []HarnessSpec{
		{Name: "estimate", Pkg: "chain", Files: []string{"chain/common.go", "chain/c12_units.go", "chain/c12_block.go", "chain/c14_estimate.go"}, Entry: "VerifC14Estimate", IntMode: true, LenAsSum: true, QueryMs: [2]int{60000, 120000}, NoXCheck: true,
			Reach: []string{"generated"},
			Redirects: map[string]string{
				"github.com/ava-labs/hypersdk/chain.NewTxData":       "c14NewTxData",
				"github.com/ava-labs/hypersdk/chain.NewTransaction":  "c14NewTransaction",
				"github.com/StephenButtolph/canoto.SizeUint[uint64]": "c14SizeUint",
			},
			Stubs: []string{"NewTxData/NewTransaction: engine-side models that compute the encoded size with the generated canoto size code instead of marshalling (abstract-content payloads); the native replay runs the real constructors",
				"canoto.SizeUint[uint64] = branch-free model c14SizeUint (proved equal to the real function for all inputs by harness sizemodel)", "math/bits.Len64 = one arithmetic term (engine intrinsic)", "actions/auth/auth factory/balance handler/rules are harness types"},
			Assumptions: []string{"AuthFactory contract: Address() is the actor and sponsor of the auth it signs, MaxUnits() = (len(auth.Bytes()), auth.ComputeUnits)",
				"Rules.GetSponsorStateKeysMaxChunks() lists the chunk counts of the balance handler's SponsorStateKeys", "Action.StateKeys does not depend on the action ID",
				"action and auth encodings are non-empty (they start with a type id)", "0 <= timestamp < 2^62"},
			Outside: []string{"more than `maxActions` actions, action encodings longer than `maxActionBytes`, auth credentials longer than 256 bytes", "declared keys/symbolic compute units on more than the first two actions", "rule unit costs other than 1", "quick tier: non-zero chain ID only (the zero chain ID makes the encoding shorter and is run in the thorough tier)", "GenerateTransaction's MulSum(unitPrices, estimate) itself (overflow => no transaction is generated)"}},
		{Name: "sizemodel", Pkg: "chain", Files: []string{"chain/common.go", "chain/c12_units.go", "chain/c12_block.go", "chain/c14_estimate.go"}, Entry: "VerifC14SizeModel", IntMode: true, LenAsSum: true},
	}})
}
