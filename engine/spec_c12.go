package main

func init() {
	register(PropSpec{ID: "C12", Harnesses: []HarnessSpec{
		{Name: "units", Pkg: "chain", Files: []string{"chain/common.go", "chain/c12_units.go"}, Entry: "VerifC12Units", IntMode: true, QueryMs: [2]int{40000, 120000},
			Reach: []string{"metered", "overflow-rejected", "duplicate-key", "malformed-key"},
			Stubs: []string{"actions/auth/balance handler are harness types (declared keys, compute units symbolic)"},
			Outside: []string{"more than `actions` actions x `keysPerAction` keys (+ sponsor key)",
				"full-range unit costs in more than one storage dimension at a time (the other two are in [1, 2^32) and cannot overflow)"}},
		{Name: "consume", Pkg: "internal/fees", Files: []string{"internal_fees/c12_consume.go"}, Entry: "VerifC12Consume", IntMode: true, Reach: []string{"accepted", "rejected"}},
		{Name: "sequence", Pkg: "internal/fees", Files: []string{"internal_fees/c12_consume.go"}, Entry: "VerifC12Sequence", IntMode: true, Reach: []string{"accepted", "rejected"},
			Outside: []string{"more than `txs` transactions per block", "more than two dimensions with non-zero units and finite limits at a time"}},
		{Name: "verify", Pkg: "chain", Files: []string{"chain/common.go", "chain/c12_units.go", "chain/c12_block.go"}, Entry: "VerifC12Verify", IntMode: true, Sched: true,
			Reach:   []string{"block-accepted", "block-rejected"},
			Stubs:   []string{"actions/auth/balance handler/parent state are harness types", "metrics/tracing/logging opaque"},
			Outside: []string{"more than `txs` transactions per block", "symbolic units/limits only in the bandwidth and compute dimensions", "executor/fetcher interleavings beyond the preemption bound (C01/C08)"}},
		{Name: "build", Pkg: "chain", Files: []string{"chain/common.go", "chain/c12_units.go", "chain/c12_block.go"}, Entry: "VerifC12Build", IntMode: true, Sched: true,
			Reach:   []string{"included", "skipped"},
			Stubs:   []string{"actions/auth/balance handler are harness types", "mempool = harness pool streaming its transactions once", "parent view = map-backed merkledb.View", "validity window = no repeats", "metrics/tracing/logging opaque", "time.Now = zero time in the engine (real time in the native replay)"},
			Outside: []string{"more than `txs` transactions in the mempool", "symbolic units only in the compute dimension (transaction sizes are the concrete encoded sizes)", "executor interleavings beyond the preemption bound (C02/C08)"}},
	}})
}
