package main

import (
	"bytes"
	"strings"

	"golang.org/x/tools/go/ssa"
)

// internal/bytealg and a few runtime-backed leaves that have no Go body in SSA. Concrete operands are computed with the
// host implementation; symbolic operands are handled element-wise (solver-checked forks / equality terms).

func (in *Interp) bytesOf(v V) ([]V, bool) {
	switch x := v.(type) {
	case Slice:
		return x.A, true
	case Str:
		return in.strBytes(x), true
	}
	return nil, false
}

func concreteBytes(a []V) ([]byte, bool) {
	out := make([]byte, len(a))
	for i, e := range a {
		ei, ok := e.(Int)
		if !ok || ei.S != nil {
			return nil, false
		}
		out[i] = byte(ei.C)
	}
	return out, true
}

func init() {
	extraIntrinsics = append(extraIntrinsics, func(in *Interp, fn *ssa.Function, name string, args []V) (V, bool) {
		if !strings.HasPrefix(name, "internal/bytealg.") {
			return nil, false
		}
		ci := func(n int) V { return in.cInt(uint64(int64(n)), 64, true) }
		switch name[len("internal/bytealg."):] {
		case "IndexByte", "IndexByteString":
			a, _ := in.bytesOf(args[0])
			c := args[1].(Int)
			for i, e := range a {
				if in.truth(in.eq(e, c)) {
					return ci(i), true
				}
			}
			return ci(-1), true
		case "Count", "CountString":
			a, _ := in.bytesOf(args[0])
			c := args[1].(Int)
			n := 0
			for _, e := range a {
				if in.truth(in.eq(e, c)) {
					n++
				}
			}
			return ci(n), true
		case "Equal":
			a, _ := in.bytesOf(args[0])
			b, _ := in.bytesOf(args[1])
			if len(a) != len(b) {
				return Bool{C: false}, true
			}
			acc := in.ts.True()
			for i := range a {
				acc = in.ts.Op("and", 0, acc, in.bterm(in.eq(a[i], b[i])))
			}
			return in.mkBool(acc), true
		case "Compare":
			a, _ := in.bytesOf(args[0])
			b, _ := in.bytesOf(args[1])
			ca, ok1 := concreteBytes(a)
			cb, ok2 := concreteBytes(b)
			if ok1 && ok2 {
				return ci(bytes.Compare(ca, cb)), true
			}
			n := len(a)
			if len(b) < n {
				n = len(b)
			}
			for i := 0; i < n; i++ {
				x, y := a[i].(Int), b[i].(Int)
				if in.truth(in.intBinop(tokLSS, x, y).(Bool)) {
					return ci(-1), true
				}
				if in.truth(in.intBinop(tokGTR, x, y).(Bool)) {
					return ci(1), true
				}
			}
			switch {
			case len(a) < len(b):
				return ci(-1), true
			case len(a) > len(b):
				return ci(1), true
			}
			return ci(0), true
		case "Index", "IndexString":
			a, _ := in.bytesOf(args[0])
			b, _ := in.bytesOf(args[1])
			ca, ok1 := concreteBytes(a)
			cb, ok2 := concreteBytes(b)
			if ok1 && ok2 {
				return ci(bytes.Index(ca, cb)), true
			}
			for i := 0; i+len(b) <= len(a); i++ {
				acc := in.ts.True()
				for j := range b {
					acc = in.ts.Op("and", 0, acc, in.bterm(in.eq(a[i+j], b[j])))
				}
				if in.truth(in.mkBool(acc)) {
					return ci(i), true
				}
			}
			return ci(-1), true
		case "MakeNoZero":
			n := in.concInt(args[0].(Int), 1<<16, "makenozero")
			out := make([]V, n)
			for i := range out {
				out[i] = in.cInt(0, 8, false)
			}
			return Slice{A: out}, true
		}
		return nil, false
	})
}
