package main

func init() {
	c38files := []string{"internal_chain/c38_bond.go"}
	c38stubs := []string{
		"database = avalanchego memdb executed from source (engine and native)",
		"state.Mutable holding the maximum balances = harness map",
		"transactions = real chain.Transaction values from chain.NewTransaction with concrete seeds and a harness Auth (sponsor only)",
	}
	register(PropSpec{ID: "C38", Harnesses: []HarnessSpec{
		{Name: "bonder", Pkg: "internal/chain", Files: c38files, Entry: "VerifC38Bonder",
			Reach: []string{"rebond", "released", "refused", "all-settled"}, Stubs: c38stubs,
			Assumptions: []string{"maximum balances are set once, before the history (lowering a maximum below the pending amount trivially breaks pending <= max)",
				"fee rate <= 2^40 and maximum <= 2^62 (no 64-bit overflow; the unconstrained case is the `bonder-overflow` harness)"},
			Outside: []string{"more than maxOps Bond/Unbond calls", "more than 3 transactions / 2 sponsors", "database write errors"}},
		{Name: "bonder-overflow", Pkg: "internal/chain", Files: c38files, Entry: "VerifC38BonderOverflow", IntMode: true,
			Reach: []string{"released", "refused", "all-settled"}, Stubs: c38stubs,
			Assumptions: []string{"maximum balances are set once, before the history"},
			Outside:     []string{"more than maxOpsOverflow Bond/Unbond calls", "database write errors"}},
		{Name: "node", Pkg: "internal/chain", Files: c38files, Entry: "VerifC38Node",
			Reach: []string{"rebond", "expired", "accepted", "all-settled"},
			Stubs: append([]string{"inner DSMR of fdsmr.Node = harness recorder (keeps the built chunks, returns the chosen one on Accept)"}, c38stubs...),
			Assumptions: []string{"accepted block timestamps are non-decreasing", "maximum balances are set once, before the history",
				"fee rate <= 2^40 and maximum <= 2^62"},
			Outside: []string{"more than maxEvents BuildChunk/Accept events before the final all-expiring block", "more than maxTxsPerChunk transactions per chunk",
				"more than one chunk per accepted block", "2 transactions; quick tier: both of one sponsor (thorough: the second one of either sponsor)", "chunk lists are in non-decreasing transaction order ([A,B] but not [B,A])",
				"errors from the inner DSMR"}},
	}})
}
