package main

import (
	"crypto/sha256"
	"fmt"
	"go/types"
	"strings"

	"golang.org/x/tools/go/ssa"
)

var opaqueT = types.NewNamed(types.NewTypeName(0, nil, "verifOpaque", nil), types.NewStruct(nil, nil), nil)
var errT = types.NewNamed(types.NewTypeName(0, nil, "verifError", nil), types.NewStruct(nil, nil), nil)

var opaquePkgs = []string{
	"go.uber.org/zap", "github.com/ava-labs/avalanchego/utils/logging", "go.opentelemetry.io/",
	"github.com/prometheus/", "github.com/ava-labs/avalanchego/trace", "log", "os",
	"github.com/ava-labs/avalanchego/utils/metric",
}

func isOpaquePkg(path string) bool {
	for _, p := range opaquePkgs {
		if strings.HasPrefix(path, p) {
			return true
		}
	}
	return false
}

func opaqueResults(sig *types.Signature) V {
	mk := func(t types.Type) V {
		if _, ok := t.Underlying().(*types.Interface); ok {
			return Iface{T: opaqueT, V: Opaque{t.String()}}
		}
		return zeroOrOpaque(t)
	}
	res := sig.Results()
	switch res.Len() {
	case 0:
		return nil
	case 1:
		return mk(res.At(0).Type())
	}
	t := make(Tuple, res.Len())
	for i := range t {
		t[i] = mk(res.At(i).Type())
	}
	return t
}

func (in *Interp) newErr(msg string, wrap ...V) V {
	return Iface{T: errT, V: &ErrVal{Msg: msg, Wrap: wrap}}
}

func (in *Interp) errIs(err, target V) bool {
	e, ok := err.(Iface)
	if !ok || e.T == nil {
		return false
	}
	if in.eq(err, target).C {
		return true
	}
	if ev, ok := e.V.(*ErrVal); ok {
		for _, w := range ev.Wrap {
			if in.errIs(w, target) {
				return true
			}
		}
	}
	return false
}

func shortName(full string) string {
	if i := strings.LastIndex(full, "."); i >= 0 {
		return full[i+1:]
	}
	return full
}

// extraIntrinsics: additional intrinsic tables (one per intrinsics_*.go file), tried before the built-in ones.
var extraIntrinsics []func(in *Interp, fn *ssa.Function, name string, args []V) (V, bool)

func (in *Interp) intrinsic(fn *ssa.Function, name string, args []V, initCtx bool) (V, bool) {
	sn := shortName(name)
	if in.spec != nil {
		if target, ok := in.spec.Redirects[name]; ok {
			tf := in.spec.lp.pkg.Func(target)
			if tf == nil {
				panic(unsupported("redirect target " + target + " not found in harness package"))
			}
			return in.call(tf, args, false), true
		}
	}
	for _, f := range extraIntrinsics {
		if r, ok := f(in, fn, name, args); ok {
			return r, true
		}
	}
	if strings.HasPrefix(sn, "verif") {
		switch sn {
		case "verifU8":
			return in.freshInt(args[0].(Str).S, 8, false), true
		case "verifU16":
			return in.freshInt(args[0].(Str).S, 16, false), true
		case "verifU32":
			return in.freshInt(args[0].(Str).S, 32, false), true
		case "verifU64":
			return in.freshInt(args[0].(Str).S, 64, false), true
		case "verifInt":
			return in.freshInt(args[0].(Str).S, 64, true), true
		case "verifBytes":
			n := int(args[1].(Int).C)
			a := make([]V, n)
			for i := range a {
				a[i] = in.freshInt(args[0].(Str).S, 8, false)
			}
			return Slice{A: a}, true
		case "verifBlob":
			mx := args[1].(Int).C
			l := in.freshInt(args[0].(Str).S, 64, true).(Int)
			if in.intMode {
				in.ex.assume(in.ts.Op("and", 0, in.ts.Op(">=", 0, l.S, in.ts.IntU(0)), in.ts.Op("<=", 0, l.S, in.ts.IntU(mx))))
			} else {
				in.ex.assume(in.ts.Op("bvule", 0, l.S, in.ts.ConstU(mx, 64)))
			}
			return AbsSlice{Len: l}, true
		case "verifParam":
			v := int(args[1+in.tier].(Int).C)
			in.ex.sh.mu.Lock()
			in.ex.sh.params[args[0].(Str).S] = v
			in.ex.sh.mu.Unlock()
			return in.cInt(uint64(v), 64, true), true
		case "verifObserve":
			in.ex.obs = append(in.ex.obs, obsRec{args[0].(Str).S, args[1].(Int)})
			return nil, true
		case "verifYield":
			if in.sched != nil {
				in.sched.point(in.sched.cur)
			}
			return nil, true
		case "verifPop", "verifRunAll":
			panic(unsupported("native-only helper " + sn + " called in engine"))
		case "verifI64":
			return in.freshInt(args[0].(Str).S, 64, true), true
		case "verifBool":
			return in.mkBool(in.ex.fresh(args[0].(Str).S, 0)), true
		case "verifChoose":
			n := int(args[1].(Int).C)
			tag := args[0].(Str).S
			in.ex.sh.mu.Lock()
			if n > in.ex.sh.chooseMax[tag] {
				in.ex.sh.chooseMax[tag] = n
			}
			in.ex.sh.mu.Unlock()
			if n <= 0 {
				panic(pathEnd{"infeasible", "choose 0"})
			}
			return in.cInt(uint64(in.ex.take("choose:"+tag, n, nil)), 64, true), true
		case "verifAssume":
			b := args[0].(Bool)
			if b.S == nil {
				if !b.C {
					panic(pathEnd{"infeasible", "assume false"})
				}
				return nil, true
			}
			if in.ex.checkWith(b.S) == "unsat" {
				panic(pathEnd{"infeasible", "assume"})
			}
			in.ex.assume(b.S)
			return nil, true
		case "verifFail":
			panic(pathEnd{"fail", args[0].(Str).S})
		case "verifReach":
			in.ex.sh.mu.Lock()
			in.ex.sh.reach[args[0].(Str).S] = true
			in.ex.sh.mu.Unlock()
			return nil, true
		}
	}
	if fn.Pkg != nil && isOpaquePkg(fn.Pkg.Pkg.Path()) {
		return opaqueResults(fn.Signature), true
	}
	if fn.Pkg == nil && fn.Origin() != nil && fn.Origin().Pkg != nil && isOpaquePkg(fn.Origin().Pkg.Pkg.Path()) {
		return opaqueResults(fn.Signature), true
	}
	if strings.HasPrefix(name, "sync/atomic.") {
		if r, ok := in.atomicIntrinsic(name[len("sync/atomic."):], args); ok {
			return r, true
		}
	}
	switch name {
	case "time.Now":
		return zero(fn.Signature.Results().At(0).Type()), true
	case "time.Since", "(time.Time).Sub":
		return in.cInt(0, 64, true), true
	case "(time.Time).Add", "(time.Time).UnixMilli", "time.UnixMilli":
		return zeroResult(fn), true
	case "errors.Join":
		var wraps []V
		if sl, ok := args[0].(Slice); ok {
			for _, a := range sl.A {
				if ifc, ok := a.(Iface); ok && ifc.T != nil {
					wraps = append(wraps, ifc)
				}
			}
		}
		if len(wraps) == 0 {
			return Iface{}, true
		}
		return in.newErr("join", wraps...), true
	case "time.Sleep", "runtime.Gosched":
		if in.sched != nil {
			in.sched.point(in.sched.cur)
		}
		return nil, true
	case "(*go.uber.org/atomic.Error).Load", "(*sync/atomic.Value).Load":
		in.sched.visible([]any{args[0].(Ptr)}, "aload", nil)
		v, ok := in.sched.atomVals[args[0].(Ptr)]
		if !ok {
			return Iface{}, true
		}
		return v, true
	case "(*go.uber.org/atomic.Error).Store", "(*sync/atomic.Value).Store":
		in.sched.visible([]any{args[0].(Ptr)}, "astore", nil)
		in.sched.atomVals[args[0].(Ptr)] = args[1]
		return nil, true
	case "(*go.uber.org/atomic.Error).CompareAndSwap", "(*sync/atomic.Value).CompareAndSwap":
		in.sched.visible([]any{args[0].(Ptr)}, "armw", nil)
		cur, ok := in.sched.atomVals[args[0].(Ptr)]
		if !ok {
			cur = Iface{}
		}
		if in.truth(in.eq(cur, args[1])) {
			in.sched.atomVals[args[0].(Ptr)] = args[2]
			return Bool{C: true}, true
		}
		return Bool{C: false}, true
	}
	if r, ok := in.bigIntrinsic(name, args); ok {
		return r, true
	}
	switch name {
	case "github.com/ava-labs/avalanchego/utils/hashing.ComputeHash256Array", "github.com/ava-labs/hypersdk/utils.ToID":
		sl := args[0].(Slice)
		conc := true
		raw := make([]byte, len(sl.A))
		for i, e := range sl.A {
			ei := e.(Int)
			if ei.S != nil {
				conc = false
				break
			}
			raw[i] = byte(ei.C)
		}
		out := make(Array, 32)
		if conc {
			h := sha256.Sum256(raw)
			for i := range out {
				out[i] = in.cInt(uint64(h[i]), 8, false)
			}
			return out, true
		}
		var ts []*Term
		for _, e := range sl.A {
			ts = append(ts, in.term(e.(Int)))
		}
		hterm := in.ts.Op(fmt.Sprintf("uf:sha%d", len(sl.A)), 256, ts...)
		for i := range out {
			hi := 8*(32-i) - 1
			out[i] = in.mkInt(in.ts.Op(fmt.Sprintf("(_ extract %d %d)", hi, hi-7), 8, hterm), 8, false)
		}
		return out, true
	case "github.com/ava-labs/avalanchego/utils/hashing.Checksum":
		sl := args[0].(Slice)
		n := int(args[1].(Int).C)
		var ts []*Term
		for _, e := range sl.A {
			ts = append(ts, in.term(e.(Int)))
		}
		if len(ts) == 0 {
			ts = append(ts, in.ts.ConstU(0, 8))
		}
		h := in.ts.Op(fmt.Sprintf("uf:chk%d_%d", len(sl.A), n), 8*n, ts...)
		out := make([]V, n)
		for i := 0; i < n; i++ {
			hi := 8*(n-i) - 1
			out[i] = in.mkInt(in.ts.Op(fmt.Sprintf("(_ extract %d %d)", hi, hi-7), 8, h), 8, false)
		}
		return Slice{A: out}, true
	case "(*sync.Mutex).Lock", "(*sync.RWMutex).Lock":
		in.sched.lock(args[0].(Ptr))
		return nil, true
	case "(*sync.Mutex).Unlock", "(*sync.RWMutex).Unlock":
		in.sched.unlock(args[0].(Ptr))
		return nil, true
	case "(*sync.RWMutex).RLock":
		in.sched.rlock(args[0].(Ptr))
		return nil, true
	case "(*sync.RWMutex).RUnlock":
		in.sched.runlock(args[0].(Ptr))
		return nil, true
	case "(*sync.WaitGroup).Add":
		in.sched.wgAdd(args[0].(Ptr), int(signExt(args[1].(Int).C, 64)))
		return nil, true
	case "(*sync.WaitGroup).Done":
		in.sched.wgAdd(args[0].(Ptr), -1)
		return nil, true
	case "(*sync.WaitGroup).Wait":
		in.sched.wgWait(args[0].(Ptr))
		return nil, true
	case "context.Background", "context.TODO":
		return Iface{T: opaqueT, V: Opaque{"context"}}, true
	case "errors.New":
		return in.newErr(args[0].(Str).S), true
	case "fmt.Errorf":
		var wraps []V
		if sl, ok := args[1].(Slice); ok {
			for _, a := range sl.A {
				if ifc, ok := a.(Iface); ok && ifc.T == errT {
					wraps = append(wraps, ifc)
				}
			}
		}
		return in.newErr("errorf", wraps...), true
	case "errors.Is":
		return Bool{C: in.errIs(args[0], args[1])}, true
	case "fmt.Sprintf", "fmt.Sprint", "fmt.Sprintln":
		return Str{S: "<fmt>"}, true
	case "fmt.Println", "fmt.Printf", "fmt.Print":
		return Tuple{in.cInt(0, 64, true), Iface{}}, true
	}
	_ = fmt.Sprint
	return nil, false
}

func (in *Interp) freshInt(tag string, w int, signed bool) V {
	if in.intMode {
		v := in.ex.fresh(tag, -1)
		in.rangeAssume(v, w, signed)
		kz := ^maskU(w)
		if signed {
			kz = 0
		}
		return Int{W: w, Signed: signed, S: v, KZ: kz}
	}
	return in.mkInt(in.ex.fresh(tag, w), w, signed)
}

func (in *Interp) atomicIntrinsic(fn string, args []V) (V, bool) {
	p, _ := args[0].(Ptr)
	if in.sched != nil {
		kind := "armw"
		if strings.HasPrefix(fn, "Load") {
			kind = "aload"
		}
		in.sched.visible([]any{p}, kind, nil)
	}
	switch {
	case strings.HasPrefix(fn, "Load"):
		return copyVal(*p), true
	case strings.HasPrefix(fn, "Store"):
		*p = args[1]
		return nil, true
	case strings.HasPrefix(fn, "Add"):
		cur := (*p).(Int)
		nv := in.intBinop(tokADD, cur, args[1].(Int))
		*p = nv
		return nv, true
	case strings.HasPrefix(fn, "Swap"):
		old := *p
		*p = args[1]
		return old, true
	case strings.HasPrefix(fn, "CompareAndSwap"):
		if in.truth(in.eq(*p, args[1])) {
			*p = args[2]
			return Bool{C: true}, true
		}
		return Bool{C: false}, true
	}
	return nil, false
}
