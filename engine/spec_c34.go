package main

func init() {
	files := []string{"utils/c34_balance.go"}
	register(PropSpec{ID: "C34", Harnesses: []HarnessSpec{
		{Name: "vectors", Pkg: "utils", Files: files, Entry: "VerifC34Vectors",
			Stubs:   []string{"float64 arithmetic, strconv.FormatFloat/ParseFloat and math.Pow10 (if the code under check uses them) are executed concretely by the engine on the host platform"},
			Outside: []string{"balances other than the listed regression vectors (all balances: harness roundtrip)"}},
		{Name: "roundtrip", Pkg: "utils", Files: files, Entry: "VerifC34RoundTrip", IntMode: true,
			Outside: []string{"a float-based implementation cannot be executed on a symbolic balance (no floating-point theory): the harness then ends UNSUPPORTED and the vectors harness carries the check"}},
		{Name: "parse", Pkg: "utils", Files: files, Entry: "VerifC34Parse", IntMode: true, Reach: []string{"eleven-integer-digits"},
			Assumptions: []string{"the amount is within range (integer*10^9 + fraction <= 2^64-1)"},
			Outside:     []string{"integer parts longer than 12 digits (leading zeros), quick tier: integer parts of 3..9 digits", "signs, exponents, spaces, underscores and other non-decimal spellings (not decimal strings in the sense of the property)"}},
	}})
}
