package main

import "go/token"

const (
	tokLSS = token.LSS
	tokGTR = token.GTR
	tokADD = token.ADD
)
