package main

func init() {
	register(PropSpec{ID: "C03", Harnesses: []HarnessSpec{
		{Name: "atomic", Pkg: "chain", Files: []string{"chain/common.go", "chain/c03_atomic.go"}, Entry: "VerifC03Atomic",
			Reach:   []string{"all-succeeded", "reverted", "undeclared-access", "cannot-pay"},
			Stubs:   []string{"actions are scripted harness actions (writes/deletes/undeclared access, then success or failure); auth, balance handler, rules are harness types", "unit prices and units concrete in this harness (fee arithmetic: harness `fee`)"},
			Outside: []string{"transactions beyond 2 actions x 2 state changes per action (thorough: also 3 actions x 1 state change)", "keys: two data keys and the sponsor balance key (all declared with full permission) plus one undeclared key", "actions that panic"}},
		{Name: "fee", Pkg: "chain", Files: []string{"chain/common.go", "chain/c03_atomic.go"}, Entry: "VerifC03Fee", IntMode: true,
			Reach:   []string{"not-included", "failed-still-pays"},
			Outside: []string{"one action per transaction in this harness; rule unit costs concrete (units formula: C12)"}},
	}})
}
