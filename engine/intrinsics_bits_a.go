package main

import (
	"golang.org/x/tools/go/ssa"
)

// math/bits.Len64/Len32/Len/Len16/Len8 on a symbolic argument as ONE term (Σ_k [x >= 2^k]) instead of interpreting the
// library's branchy table-driven body: varint size computations (canoto.SizeUint/SizeInt) call it once per encoded
// field, and forking three ways per call makes transactions with many actions unexplorable. Concrete arguments still
// run the real body.
func init() {
	extraIntrinsics = append(extraIntrinsics, func(in *Interp, fn *ssa.Function, name string, args []V) (V, bool) {
		if shortName(name) == "verifGe" {
			a, b := args[0].(Int), args[1].(Int)
			if a.S == nil && b.S == nil {
				if a.C >= b.C {
					return in.cInt(1, 64, false), true
				}
				return in.cInt(0, 64, false), true
			}
			if in.intMode {
				t := in.ts.Op("ite", -1, in.ts.Op(">=", 0, in.iterm(a), in.iterm(b)), in.ts.IntU(1), in.ts.IntU(0))
				return in.symI(t, 64, false, ^uint64(1), nil), true
			}
			t := in.ts.Op("ite", 64, in.ts.Op("bvuge", 0, in.term(a), in.term(b)), in.ts.ConstU(1, 64), in.ts.ConstU(0, 64))
			return in.mkInt(t, 64, false), true
		}
		if in.spec == nil || !in.spec.LenAsSum {
			return nil, false // default model: the ite chain of intrinsics_bits.go
		}
		w := 0
		switch name {
		case "math/bits.Len64", "math/bits.Len":
			w = 64
		case "math/bits.Len32":
			w = 32
		case "math/bits.Len16":
			w = 16
		case "math/bits.Len8":
			w = 8
		default:
			return nil, false
		}
		x, ok := args[0].(Int)
		if !ok || x.S == nil {
			return nil, false
		}
		if in.intMode {
			xt := in.iterm(x)
			acc := in.ts.IntU(0)
			top := maxVal(x)
			for k := 0; k < w; k++ {
				if !x.Signed && top.Cmp(pow2(k)) < 0 {
					break // known-zero bits: x < 2^k
				}
				acc = in.iop("+", acc, in.ts.Op("ite", -1, in.ts.Op(">=", 0, xt, in.ts.IntC(pow2(k))), in.ts.IntU(1), in.ts.IntU(0)))
			}
			return in.symI(acc, 64, true, 0, nil), true
		}
		xt := in.term(x)
		acc := in.ts.ConstU(0, 64)
		for k := 0; k < w; k++ {
			acc = in.ts.Op("bvadd", 64, acc, in.ts.Op("ite", 64, in.ts.Op("bvuge", 0, xt, in.ts.ConstU(uint64(1)<<uint(k), x.W)), in.ts.ConstU(1, 64), in.ts.ConstU(0, 64)))
		}
		return in.mkInt(acc, 64, true), true
	})
}
