package main

func init() {
	const tx = "github.com/ava-labs/hypersdk/x/dsmr/dsmrtest.Tx"
	register(PropSpec{ID: "C36", Harnesses: []HarnessSpec{
		{Name: "restart", Pkg: "x/dsmr", Files: []string{"dsmr/c36_storage.go"}, Entry: "VerifC36Restart",
			Reach: []string{"saved", "expired", "pending-before-restart", "accepted-before-restart", "gone-before-restart"},
			Redirects: map[string]string{
				"github.com/ava-labs/hypersdk/x/dsmr.newChunk[" + tx + "]":   "c36NewChunkModel",
				"github.com/ava-labs/hypersdk/x/dsmr.ParseChunk[" + tx + "]": "c36ParseChunkModel",
			},
			Stubs: []string{
				"database = avalanchego memdb executed from source (engine and native)",
				"chunk encoding: newChunk/ParseChunk (codec.LinearCodec, reflection) redirected in the engine to an identity table with the real encoded length; the native replay runs the real functions on really encoded chunks",
				"verifier = harness verifier accepting every chunk and certificate; rule factory = harness with a symbolic weight limit",
			},
			Assumptions: []string{
				"each chunk is added at most once (documented precondition of AddLocalChunkWithCert/VerifyRemoteChunk)",
				"SetMin saves only pending chunks (Node.Accept stores every referenced chunk before calling it) and minimum values are non-decreasing",
				"certificates are not compared (documented as not persisted)",
			},
			Outside: []string{"more than maxOps operations / maxChunks chunks / 2 producers", "chunk expiries other than {10,20}", "chunk i carries i transactions (distinct sizes by construction)", "database errors"}},
	}})
}
