package main

func init() {
	files := []string{"chain/common.go", "chain/c03_atomic.go", "chain/c12_units.go", "chain/c12_block.go", "chain/c07_maxfee.go"}
	stubs := []string{"action/auth/balance handler/rules are harness types", "validity window = no repeats", "state = map-backed harness state", "metrics/tracing/logging opaque", "time.Now = zero time in the engine (real time in the native replay)"}
	register(PropSpec{ID: "C07", Harnesses: []HarnessSpec{
		{Name: "admission", Pkg: "chain", Files: files, Entry: "VerifC07Admission", IntMode: true, Reach: []string{"admitted", "rejected"}, Stubs: stubs,
			Outside: []string{"VM.Submit plumbing around PreExecutor.PreExecute (mempool, gossip)", "one action per transaction; rule unit costs concrete (units: C12)"}},
		{Name: "verify", Pkg: "chain", Files: files, Entry: "VerifC07Verify", IntMode: true, Sched: true, Reach: []string{"block-accepted", "block-rejected"}, Stubs: stubs,
			Outside: []string{"blocks with more than one transaction (fees are per transaction)", "executor interleavings beyond the preemption bound"}},
		{Name: "build", Pkg: "chain", Files: files, Entry: "VerifC07Build", IntMode: true, Sched: true, Reach: []string{"included", "skipped"}, Stubs: stubs,
			Outside: []string{"mempools with more than one transaction", "transaction size is the concrete encoded size"}},
	}})
}
