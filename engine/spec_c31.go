package main

func init() {
	const pdb = "(*github.com/ava-labs/hypersdk/internal/pebble.Database)."
	register(PropSpec{ID: "C31", Harnesses: []HarnessSpec{
		{Name: "history", Pkg: "api/indexer", Files: []string{"indexer/c31_indexer.go"}, Entry: "VerifC31History",
			Reach: []string{"served", "evicted", "tx-served", "restarted", "repeated", "gap"},
			Stubs: []string{
				"internal/pebble.Database: pebble.New, Close, DeleteRange, NewBatch (Put/Delete/Write), NewIteratorWithPrefix redirected in the engine to an ordered-map model; the native replay runs the real pebble database in a temporary directory",
				"blocks are real chain.ExecutedBlock values (chain.NewTransaction/NewStatelessBlock/NewExecutedBlock) with a harness action/auth/parser; canoto Marshal/UnmarshalExecutedBlock run as real code in both worlds",
				"path/filepath.Join, bytes.Compare: concrete engine intrinsics; prometheus registry opaque",
			},
			Assumptions: []string{"accepted heights are notified in non-decreasing order, one block per height (a repeated delivery re-delivers the last block)"},
			Outside: []string{"more than maxOps notifications/restarts", "block windows above maxWindow", "height steps other than {0 (repeat), 1, 2, 4}, first heights other than {0, 1, 5}",
				"more than 2 transactions per block", "concurrent readers (the indexer's RWMutex is not exercised)", "database errors"},
			Redirects: map[string]string{
				"github.com/ava-labs/hypersdk/internal/pebble.New": "c31PebbleNewModel",
				pdb + "Close":                 "c31PebbleCloseModel",
				pdb + "DeleteRange":           "c31PebbleDeleteRangeModel",
				pdb + "NewBatch":              "c31PebbleNewBatchModel",
				pdb + "Put":                   "c31PebblePutModel",
				pdb + "Delete":                "c31PebbleDeleteModel",
				pdb + "Get":                   "c31PebbleGetModel",
				pdb + "Has":                   "c31PebbleHasModel",
				pdb + "NewIteratorWithPrefix": "c31PebbleIterPrefixModel",
				"github.com/ava-labs/hypersdk/api/indexer.c31TempDir":   "c31TempDirModel",
				"github.com/ava-labs/hypersdk/api/indexer.c31RemoveDir": "c31RemoveDirModel",
			},
		},
	}})
}
