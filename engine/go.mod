module gosym

go 1.23

require golang.org/x/tools v0.29.0

require (
	golang.org/x/mod v0.22.0 // indirect
	golang.org/x/sync v0.10.0 // indirect
)
