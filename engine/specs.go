package main

import "path/filepath"

// HarnessSpec describes one symbolic harness: an entry function (in a file under /verif/harness that is
// overlaid into the real package directory of /repo) and how it is explored.
type HarnessSpec struct {
	Name         string
	Mod          string   // module dir relative to /repo ("" = /repo itself)
	Pkg          string   // package dir relative to the module dir
	Files        []string // harness files relative to /verif/harness
	Entry        string
	IntMode      bool   // INT encoding (mathematical integers, explicit wrap) instead of bit-vectors
	Sched        bool   // harness spawns goroutines: schedules are explored (iterative preemption bounding)
	Preempt      [2]int // preemption bound per tier
	MaxPaths     [2]int
	BudgetS      [2]int
	QueryMs      [2]int
	Unwind       int
	NoXCheck     bool
	ThoroughOnly bool
	Reach        []string // vacuity markers that must be reached (besides "end")
	Stubs        []string
	Outside      []string
	Assumptions  []string
	// Redirects maps the full name of a real function (as printed by (*ssa.Function).String(), e.g.
	// "(*github.com/ava-labs/hypersdk/internal/pebble.Database).Get") to the name of a harness function in the harness
	// package with the same parameter list (receiver first). Engine only: the native replay runs the real callee.
	MapOrder  []string // substrings of map types whose iteration order is explored (a choice per range loop)
	WordByteEq bool // INT mode: compare byte strings word-wise (engine/intmode_bytes_e.go) instead of by grouped decompositions
	AbsMake   bool // make([]byte, 0, <symbolic cap>) yields an abstract-content buffer (only its length is tracked)
	LenAsSum  bool // model math/bits.Len* as a sum of comparisons instead of an ite chain
	Redirects map[string]string
	smtlog    string
	lp        *LoadedPkg
}

func (h *HarnessSpec) modDir() string { return filepath.Join(repoRoot, h.Mod) }

type PropSpec struct {
	ID          string
	Harnesses   []HarnessSpec
	Assumptions []string
}

var propTable []PropSpec

func register(p PropSpec) { propTable = append(propTable, p) }

func allProps() []PropSpec { return propTable }

func findProp(id string) *PropSpec {
	for i := range propTable {
		if propTable[i].ID == id {
			return &propTable[i]
		}
	}
	return nil
}

func init() {
	register(PropSpec{ID: "C40", Harnesses: []HarnessSpec{
		{Name: "keys", Pkg: "keys", Files: []string{"keys/c40_keys.go"}, Entry: "VerifC40Keys", Reach: []string{"value-fits", "encoded"},
			Outside: []string{"keys longer than maxKeyLen bytes (only the last two bytes are read)", "value lengths above maxValLen"}},
		{Name: "insert", Pkg: "state/tstate", Files: []string{"tstate/c40_insert.go"}, Entry: "VerifC40Insert", Reach: []string{"value-fits", "value-refused"},
			Outside: []string{"value sizes other than 0, 1, 64, 65, 128, 129 bytes (chunk boundaries) in the view-level harness; the chunk arithmetic for all sizes is the keys harness"}},
	}})
}

func init() {
	register(PropSpec{ID: "C39", Harnesses: []HarnessSpec{
		{Name: "prefix", Pkg: "state/metadata", Files: []string{"state_metadata/c39_prefix.go"}, Entry: "VerifC39", Reach: []string{"conflict", "no-conflict"},
			Outside: []string{"prefixes longer than maxPrefixLen bytes", "more than maxVMPrefixes VM prefixes"}},
	}})
	register(PropSpec{ID: "C10", Harnesses: []HarnessSpec{
		{Name: "timestamp", Pkg: "internal/validitywindow", Files: []string{"validitywindow/c10_timestamp.go"}, Entry: "VerifC10Timestamp", Reach: []string{"accepted", "rejected"},
			Assumptions: []string{"block timestamp >= 0 and validity window >= 0 (documented domain; negative windows make ts+window wrap)"}},
		{Name: "preexecute", Pkg: "chain", Files: []string{"chain/common.go", "chain/c10_preexecute.go"}, Entry: "VerifC10PreExecute", Reach: []string{"accepted", "rejected"},
			Stubs:   []string{"actions/auth are harness types with symbolic activation ranges", "balance handler = harness handler with ample balance", "chain IDs symbolic in bytes 0 and 31"},
			Outside: []string{"more than maxActions actions (see harness actioncount)", "VM.Submit plumbing (PreExecutor is C07/C09)"}},
		{Name: "actioncount", Pkg: "chain", Files: []string{"chain/common.go", "chain/c10_preexecute.go"}, Entry: "VerifC10ActionCount", Reach: []string{"accepted", "rejected"},
			Outside: []string{"action counts other than 0, 1, 254..257, 271, 272, 511..513 (boundary values of the 8-bit limit); more than 2^16 actions"}},
	}})
}

func init() {
	register(PropSpec{ID: "C04", Harnesses: []HarnessSpec{
		{Name: "history", Pkg: "state/tstate", Files: []string{"tstate/c04_view.go"}, Entry: "VerifC04History", Reach: []string{"rollback", "published", "empty-value"},
			Outside: []string{"more than maxOps operations on the view under test", "more than `keys` keys", "values longer than one chunk (C40)", "parent read errors other than not-found"}},
	}})
}

func init() {
	c13files := []string{"internal_fees/c13_price.go", "internal_fees/c13_roundtrip.go"}
	register(PropSpec{ID: "C13", Harnesses: []HarnessSpec{
		{Name: "window", Pkg: "internal/fees", Files: c13files, Entry: "VerifC13Window", IntMode: true, Reach: []string{"sum-saturates"},
			Outside: []string{"window slots other than the `symbolicWindowSlots` symbolic ones are zero"}},
		{Name: "exact", Pkg: "internal/fees", Files: c13files, Entry: "VerifC13Exact", IntMode: true,
			Assumptions: []string{"target >= 1 and change denominator >= 1 (zero is a configuration error: division by zero)", "elapsed seconds < 2^40"},
			Reach: []string{"idle-decay"},
			Outside:     []string{"the price harness keeps one symbolic window slot plus the parent consumption (the window arithmetic for all slots/elapsed times is the `window` harness)", "elapsed times other than the `sinceKinds` representatives {1, >10 symbolic, 0, 10} in the price harness"}},
		{Name: "monotone", Pkg: "internal/fees", Files: c13files, Entry: "VerifC13Mono", IntMode: true,
			Assumptions: []string{"target >= 1 and change denominator >= 1"}},
		{Name: "roundtrip", Pkg: "internal/fees", Files: c13files, Entry: "VerifC13RoundTrip"},
	}})
}

func init() {
	register(PropSpec{ID: "C28", Harnesses: []HarnessSpec{
		{Name: "parse", Pkg: "codec", Files: []string{"codec/c28_address.go"}, Entry: "VerifC28Parse", Reach: []string{"accepted", "rejected"},
			Stubs:   []string{"hashing.Checksum = uninterpreted function per input length (the real SHA-256 in the native replay); inputs carry their checksum by construction"},
			Outside: []string{"payload lengths other than the listed `payloadLens` representatives", "strings with more than one trailing character"}},
		{Name: "roundtrip", Pkg: "codec", Files: []string{"codec/c28_address.go"}, Entry: "VerifC28RoundTrip",
			Stubs: []string{"hashing.Checksum = uninterpreted function"}},
	}})
}
