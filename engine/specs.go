package main

import "path/filepath"

// HarnessSpec describes one symbolic harness: an entry function (in a file under /verif/harness that is
// overlaid into the real package directory of /repo) and how it is explored.
type HarnessSpec struct {
	Name         string
	Mod          string   // module dir relative to /repo ("" = /repo itself)
	Pkg          string   // package dir relative to the module dir
	Files        []string // harness files relative to /verif/harness
	Entry        string
	IntMode      bool   // INT encoding (mathematical integers, explicit wrap) instead of bit-vectors
	Sched        bool   // harness spawns goroutines: schedules are explored (iterative preemption bounding)
	Preempt      [2]int // preemption bound per tier
	MaxPaths     [2]int
	BudgetS      [2]int
	QueryMs      [2]int
	Unwind       int
	NoXCheck     bool
	ThoroughOnly bool
	Reach        []string // vacuity markers that must be reached (besides "end")
	Stubs        []string
	Outside      []string
	Assumptions  []string
}

func (h *HarnessSpec) modDir() string { return filepath.Join("/repo", h.Mod) }

type PropSpec struct {
	ID          string
	Harnesses   []HarnessSpec
	Assumptions []string
}

var propTable []PropSpec

func register(p PropSpec) { propTable = append(propTable, p) }

func allProps() []PropSpec { return propTable }

func findProp(id string) *PropSpec {
	for i := range propTable {
		if propTable[i].ID == id {
			return &propTable[i]
		}
	}
	return nil
}

func init() {
	register(PropSpec{ID: "C40", Harnesses: []HarnessSpec{
		{Name: "keys", Pkg: "keys", Files: []string{"keys/c40_keys.go"}, Entry: "VerifC40Keys", Reach: []string{"value-fits", "encoded"},
			Outside: []string{"keys longer than maxKeyLen bytes (only the last two bytes are read)", "value lengths above maxValLen"}},
	}})
}
