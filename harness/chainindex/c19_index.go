package chainindex

import (
	"context"

	"github.com/ava-labs/avalanchego/database"
	"github.com/ava-labs/avalanchego/database/memdb"
	"github.com/ava-labs/avalanchego/ids"
	"github.com/ava-labs/avalanchego/utils/logging"
	"github.com/prometheus/client_golang/prometheus"
)

// c19Block is the harness block: the ID is a constructive function of the height (one accepted chain: a height
// identifies a block), the payload byte is symbolic data that must come back unchanged.
type c19Block struct {
	h uint64
	v byte
}

func c19ID(h uint64) ids.ID            { return ids.ID{byte(h), byte(h >> 8), 0xC1, 0x9} }
func (b *c19Block) GetID() ids.ID      { return c19ID(b.h) }
func (b *c19Block) GetHeight() uint64  { return b.h }
func (b *c19Block) GetBytes() []byte   { return []byte{byte(b.h), byte(b.h >> 8), b.v} }
func (b *c19Block) String() string     { return "c19" }

type c19Parser struct{}

func (c19Parser) ParseBlock(_ context.Context, b []byte) (*c19Block, error) {
	if len(b) != 3 {
		return nil, database.ErrClosed // any error: the stored bytes were damaged
	}
	return &c19Block{h: uint64(b[0]) | uint64(b[1])<<8, v: b[2]}, nil
}

const c19MaxH = 24

// c19Model is the reference model: which heights were stored (accepted or saved historically) with which payload,
// and whether a stored height has been outside the retained window at some moment since it was (last) stored.
type c19Model struct {
	stored  [c19MaxH]bool
	hist    [c19MaxH]bool // stored by SaveHistorical (not by an accept)
	val     [c19MaxH]byte
	everOut [c19MaxH]bool
	last    uint64
	window  uint64
	gapSeen bool
}

// markOut records the heights that are outside the window now (window 0 = unlimited, as in the package's tests).
func (m *c19Model) markOut() {
	if m.window == 0 {
		return
	}
	for h := uint64(1); h < c19MaxH; h++ {
		if m.stored[h] && h+m.window <= m.last {
			m.everOut[h] = true
		}
	}
}

func c19New(db database.Database, window uint64) *ChainIndex[*c19Block] {
	ci, err := New[*c19Block](context.Background(), logging.NoLog{}, prometheus.NewRegistry(),
		Config{AcceptedBlockWindow: window, BlockCompactionFrequency: 1}, c19Parser{}, db)
	if err != nil {
		verifFail("new-error")
	}
	return ci
}

// c19Check is the oracle, evaluated after every event through the public getters only. Completeness and consistency
// failures end the path at once; an exceeded retention bound is returned as a label and reported at the end of the
// history, so that the other checks still run on the rest of the history.
func c19Check(ci *ChainIndex[*c19Block], m *c19Model, maxH uint64) string {
	ctx := context.Background()
	lh, err := ci.GetLastAcceptedHeight(ctx)
	if err != nil {
		verifFail("last-accepted-height-error")
	}
	if lh != m.last {
		verifFail("last-accepted-height-wrong")
	}
	retained := uint64(0)
	retainedHist := false
	for h := uint64(0); h < maxH; h++ {
		id := c19ID(h)
		blk, errB := ci.GetBlockByHeight(ctx, h)
		gotID, errI := ci.GetBlockIDAtHeight(ctx, h)
		gotH, errH := ci.GetBlockIDHeight(ctx, id)
		blk2, errG := ci.GetBlock(ctx, id)
		must := false
		if m.stored[h] {
			if h == 0 {
				must = true
			} else if !m.everOut[h] {
				must = true
			}
		}
		if must {
			if errB != nil {
				if h == 0 {
					verifFail("genesis-lost")
				}
				verifFail("in-window-block-missing-by-height")
			}
			if errI != nil {
				verifFail("in-window-id-at-height-missing")
			}
			if errH != nil {
				verifFail("in-window-height-of-id-missing")
			}
			if errG != nil {
				verifFail("in-window-block-missing-by-id")
			}
			if gotID != id {
				verifFail("id-at-height-wrong")
			}
			if gotH != h {
				verifFail("height-of-id-wrong")
			}
			if blk.h != h {
				verifFail("block-by-height-wrong-height")
			}
			if blk.v != m.val[h] {
				verifFail("block-by-height-wrong-content")
			}
			if blk2.h != h {
				verifFail("block-by-id-wrong-height")
			}
			if blk2.v != m.val[h] {
				verifFail("block-by-id-wrong-content")
			}
			verifReach("in-window-checked")
		} else {
			// whatever is still answered must be consistent: never a block that was not stored, never mixed-up mappings
			if errB == nil {
				if !m.stored[h] {
					verifFail("phantom-block")
				}
				if blk.h != h {
					verifFail("stale-block-wrong-height")
				}
				if blk.v != m.val[h] {
					verifFail("stale-block-wrong-content")
				}
			}
			if errI == nil {
				if gotID != id {
					verifFail("stale-id-at-height-wrong")
				}
			}
			if errH == nil {
				if gotH != h {
					verifFail("stale-height-of-id-wrong")
				}
			}
		}
		if h != 0 {
			alive := 0
			if errB == nil {
				alive = 1
			}
			if errI == nil {
				alive = 1
			}
			if errH == nil {
				alive = 1
			}
			if alive == 1 {
				retained++
				if m.hist[h] {
					retainedHist = true
				}
			}
		}
	}
	if m.window > 0 {
		if retained > m.window+1 {
			if retainedHist {
				return "retention-after-historical-save"
			}
			if m.gapSeen {
				return "retention-after-gap"
			}
			return "retention-bound-exceeded"
		}
	}
	return ""
}

// c19History drives the real index through every history of exactly nOps events (the oracle runs after every event,
// so shorter histories are covered as prefixes):
//   accept(last+1+gap)   gap in 0..maxGap (gap > 0 = state sync onto a taller chain: snow.VM.StartStateSync)
//   saveHistorical       the block just below the contiguous stored run that ends at the last accepted block
//                        (validitywindow.Syncer fetches backwards from the oldest block it found on disk)
//   restart(window')     chainindex.New on the same database with any window in 0..maxWin (at most maxRestarts times)
// starting from a fresh index (any window) that accepted genesis.
func c19History(db database.Database, nOps, maxGap int, allowHist bool, maxWin, maxRestarts int) {
	ctx := context.Background()
	m := &c19Model{}
	m.window = uint64(verifChoose("window", maxWin+1))
	ci := c19New(db, m.window)
	g := &c19Block{h: 0, v: verifU8("v")}
	if err := ci.UpdateLastAccepted(ctx, g); err != nil {
		verifFail("accept-genesis-error")
	}
	m.stored[0], m.val[0] = true, g.v
	maxH := uint64(1 + nOps*(maxGap+1))
	if maxH > c19MaxH {
		verifFail("harness-bound")
	}
	excess := c19Check(ci, m, maxH)
	restarts := 0
	for i := 0; i < nOps; i++ {
		// events available now: 0 accept, then saveHistorical (if a block is missing below the stored run), then restart
		low := m.last
		if allowHist {
			for low > 1 {
				if _, err := ci.GetBlockByHeight(ctx, low-1); err != nil {
					break
				}
				low--
			}
		}
		opHist, opRestart, nKinds := -1, -1, 1
		if allowHist && low > 1 {
			opHist = nKinds
			nKinds++
		}
		if restarts < maxRestarts {
			opRestart = nKinds
			nKinds++
		}
		op := verifChoose("op", nKinds)
		if op == 0 {
			gap := uint64(verifChoose("gap", maxGap+1))
			b := &c19Block{h: m.last + 1 + gap, v: verifU8("v")}
			if err := ci.UpdateLastAccepted(ctx, b); err != nil {
				if gap > 0 {
					verifFail("accept-error-at-gap")
				}
				if m.gapSeen {
					verifFail("accept-error-after-gap")
				}
				verifFail("accept-error")
			}
			if gap > 0 {
				m.gapSeen = true
				verifReach("gap")
			}
			m.stored[b.h], m.hist[b.h], m.val[b.h], m.everOut[b.h] = true, false, b.v, false
			m.last = b.h
		} else if op == opRestart {
			restarts++
			m.window = uint64(verifChoose("window", maxWin+1))
			ci = c19New(db, m.window)
			verifReach("restart")
		} else if op == opHist {
			b := &c19Block{h: low - 1, v: verifU8("v")}
			if m.stored[b.h] {
				b.v = m.val[b.h] // the same chain: a block fetched again is the same block
			}
			if err := ci.SaveHistorical(b); err != nil {
				verifFail("save-historical-error")
			}
			m.stored[b.h], m.hist[b.h], m.val[b.h], m.everOut[b.h] = true, true, b.v, false
			verifReach("historical")
		}
		m.markOut()
		if l := c19Check(ci, m, maxH); excess == "" {
			excess = l
		}
	}
	if excess != "" {
		verifFail(excess)
	}
	verifReach("end")
}

// VerifC19Consecutive: consecutive accepts and restarts only (the regime of the package's unit tests), deepest bound.
func VerifC19Consecutive() {
	c19History(memdb.New(), verifParam("ops", 6, 8), 0, false, verifParam("maxWindow", 3, 3), verifParam("maxRestarts", 2, 3))
}

// VerifC19Gap: accepts after height gaps (state sync) and restarts.
func VerifC19Gap() {
	c19History(memdb.New(), verifParam("ops", 4, 5), verifParam("maxGap", 2, 2), false, verifParam("maxWindow", 3, 3), verifParam("maxRestarts", 2, 2))
}

// VerifC19Historical: gaps, restarts and historical saves below the last accepted block.
func VerifC19Historical() {
	c19History(memdb.New(), verifParam("ops", 4, 5), verifParam("maxGap", 2, 2), true, verifParam("maxWindow", 2, 3), verifParam("maxRestarts", 1, 1))
}
