package eheap

import "github.com/ava-labs/avalanchego/ids"

type c25Item struct {
	id  ids.ID
	exp int64
}

func (i *c25Item) GetID() ids.ID    { return i.id }
func (i *c25Item) GetExpiry() int64 { return i.exp }

const c25MaxIDs = 4

func c25id(k int) ids.ID { return ids.ID{byte(k + 1), 0xee} }

// c25model is the reference: a set of IDs, each with the item that was added first under that ID.
type c25model struct {
	present [c25MaxIDs]bool
	item    [c25MaxIDs]*c25Item
	count   int
}

// c25isMin: `got` is the held item of its ID and no held item has a smaller expiry.
func (m *c25model) c25isMin(got *c25Item, where string) int {
	k := int(got.id[0]) - 1
	if k < 0 || k >= c25MaxIDs || !m.present[k] {
		verifFail(where + "-returned-absent-item")
	}
	if got != m.item[k] {
		verifFail(where + "-returned-other-item-of-id")
	}
	for i := 0; i < c25MaxIDs; i++ {
		if m.present[i] {
			if m.item[i].exp < got.exp {
				verifFail(where + "-not-minimal")
			}
		}
	}
	return k
}

func (m *c25model) drop(k int) {
	m.present[k] = false
	m.item[k] = nil
	m.count--
}

// VerifC25ExpiryHeap: the real ExpiryHeap (on the real heap.Heap / container/heap) under every history of
// add / remove / set-minimum / pop-minimum over up to `ids` IDs with symbolic 64-bit expiries; after every operation
// Len, Has (every ID) and PeekMin are compared with the reference set.
func VerifC25ExpiryHeap() {
	maxOps := verifParam("maxOps", 5, 6)
	nids := verifParam("ids", 3, 4)
	eh := New[*c25Item](2)
	var m c25model
	used := 0 // IDs 0..used-1 have been added at least once (IDs are only compared for equality: first-use order)
	n := 1 + verifChoose("n", maxOps)
	for step := 0; step < n; step++ {
		switch verifChoose("op", 4) {
		case 0: // add: a held ID again (other item, other expiry), a dropped one, or the next unused one
			lim := used + 1
			if lim > nids {
				lim = nids
			}
			k := verifChoose("addid", lim)
			it := &c25Item{id: c25id(k), exp: verifI64("exp")}
			eh.Add(it)
			if k == used {
				used++
			}
			if !m.present[k] {
				m.present[k], m.item[k] = true, it
				m.count++
			} else {
				verifReach("add-duplicate")
			}
		case 1: // remove any ID, including one that was never added
			lim := used + 1
			if lim > nids {
				lim = nids
			}
			k := verifChoose("rmid", lim)
			got, ok := eh.Remove(c25id(k))
			if ok != m.present[k] {
				verifFail("remove-ok-wrong")
			}
			if ok {
				if got != m.item[k] {
					verifFail("remove-returned-other-item")
				}
				m.drop(k)
				verifReach("removed")
			}
		case 2: // raise the minimum
			t := verifI64("min")
			out := eh.SetMin(t)
			for _, r := range out {
				k := int(r.id[0]) - 1
				if k < 0 || k >= c25MaxIDs || !m.present[k] {
					verifFail("setmin-returned-absent-item")
				}
				if r != m.item[k] {
					verifFail("setmin-returned-other-item-of-id")
				}
				if r.exp >= t {
					verifFail("setmin-returned-unexpired")
				}
				m.drop(k)
				verifReach("expired")
			}
			for i := 0; i < c25MaxIDs; i++ {
				if m.present[i] {
					if m.item[i].exp < t {
						verifFail("setmin-kept-expired")
					}
				}
			}
		case 3: // pop the minimum
			got, ok := eh.PopMin()
			if ok != (m.count > 0) {
				verifFail("popmin-ok-wrong")
			}
			if ok {
				m.drop(m.c25isMin(got, "popmin"))
			}
		}
		if eh.Len() != m.count {
			verifFail("len-wrong")
		}
		for i := 0; i < nids; i++ {
			if eh.Has(c25id(i)) != m.present[i] {
				verifFail("has-wrong")
			}
		}
		pk, ok := eh.PeekMin()
		if ok != (m.count > 0) {
			verifFail("peekmin-ok-wrong")
		}
		if ok {
			m.c25isMin(pk, "peekmin")
		}
	}
	verifReach("end")
}

const c25ShapeMax = 7

// VerifC25HeapShape: a heap filled with n items of arbitrary (symbolic) expiries — i.e. every heap layout n adds can
// produce — then one arbitrary item removed (root, inner node, leaf, tail), then drained: every PopMin must return a
// held item of minimal expiry. Covers removals whose replacement has to move up as well as down.
func VerifC25HeapShape() {
	n := verifParam("items", 6, 6) // 7 items did not finish within 40 minutes on 8 workers
	eh := New[*c25Item](2)
	var items [c25ShapeMax]*c25Item
	var held [c25ShapeMax]bool
	for i := 0; i < n; i++ {
		items[i] = &c25Item{id: ids.ID{byte(i + 1), 0xdd}, exp: verifI64("exp")}
		eh.Add(items[i])
		held[i] = true
	}
	r := verifChoose("remove", n)
	got, ok := eh.Remove(items[r].id)
	if !ok {
		verifFail("shape-remove-not-found")
	}
	if got != items[r] {
		verifFail("shape-remove-returned-other-item")
	}
	held[r] = false
	for left := n - 1; left > 0; left-- {
		p, ok := eh.PopMin()
		if !ok {
			verifFail("shape-popmin-empty-too-early")
		}
		k := int(p.id[0]) - 1
		if k < 0 || k >= n || !held[k] || p != items[k] {
			verifFail("shape-popmin-returned-absent-item")
		}
		held[k] = false
		for j := 0; j < n; j++ {
			if held[j] {
				if items[j].exp < p.exp {
					verifFail("shape-popmin-not-minimal-after-remove")
				}
			}
		}
	}
	if eh.Len() != 0 {
		verifFail("shape-len-wrong")
	}
	verifReach("end")
}

// VerifC25HeapShapeSmall: the same experiment on larger heaps with expiries from a 4-value alphabet (ties included):
// every assignment of {0,1,2,3} to 7 (thorough 8) items, every single removal, full drain. Complements heapshape
// (fully symbolic expiries, 6 items): misplacements that need a third heap level below a non-root parent only show here.
func VerifC25HeapShapeSmall() {
	n := verifParam("items", 7, 8)
	eh := New[*c25Item](2)
	var items [8]*c25Item
	var held [8]bool
	for i := 0; i < n; i++ {
		items[i] = &c25Item{id: ids.ID{byte(i + 1), 0xcc}, exp: int64(verifChoose("exp", 4))}
		eh.Add(items[i])
		held[i] = true
	}
	r := verifChoose("remove", n)
	got, ok := eh.Remove(items[r].id)
	if !ok || got != items[r] {
		verifFail("shape-remove-wrong")
	}
	held[r] = false
	for left := n - 1; left > 0; left-- {
		p, ok := eh.PopMin()
		if !ok {
			verifFail("shape-popmin-empty-too-early")
		}
		k := int(p.id[0]) - 1
		if k < 0 || k >= n || !held[k] || p != items[k] {
			verifFail("shape-popmin-returned-absent-item")
		}
		held[k] = false
		for j := 0; j < n; j++ {
			if held[j] && items[j].exp < p.exp {
				verifFail("shape-popmin-not-minimal-after-remove")
			}
		}
	}
	verifReach("end")
}
