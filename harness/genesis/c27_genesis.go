package genesis

import (
	"context"

	"github.com/ava-labs/avalanchego/database"
	"github.com/ava-labs/avalanchego/database/memdb"
	"github.com/ava-labs/avalanchego/ids"
	"github.com/ava-labs/avalanchego/trace"
	"github.com/ava-labs/avalanchego/utils/logging"
	"github.com/ava-labs/avalanchego/x/merkledb"

	"github.com/ava-labs/hypersdk/chain"
	"github.com/ava-labs/hypersdk/codec"
	"github.com/ava-labs/hypersdk/fees"
	"github.com/ava-labs/hypersdk/state/balance"
	"github.com/ava-labs/hypersdk/state/metadata"
	"github.com/ava-labs/hypersdk/utils"

	internalfees "github.com/ava-labs/hypersdk/internal/fees"
)

// ---- the state database: the real merkledb natively, a map model in the engine (Redirects in the spec) ----

// c27BaseView: an empty state database. Native body: the real merkledb over memdb. The engine runs c27ModelBase
// instead (merkledb is outside its reach).
func c27BaseView() merkledb.View {
	db, err := merkledb.New(context.Background(), memdb.New(), merkledb.Config{BranchFactor: merkledb.BranchFactor16, Tracer: trace.Noop})
	if err != nil {
		panic(err)
	}
	return db
}

// c27KeyCount: number of keys in a view (native: iterate the real view; engine: c27ModelKeyCount).
func c27KeyCount(v merkledb.View) int {
	it := v.NewIterator()
	defer it.Release()
	n := 0
	for it.Next() {
		n++
	}
	return n
}

// c27View is the engine-side model of a merkledb view: a key/value map, NewView applies a change set to a copy, the
// root is a hash of the content (uninterpreted for symbolic bytes). Only the methods NewGenesisCommit and the oracle
// call are modelled.
type c27View struct {
	keys []string
	vals map[string][]byte
}

func c27ModelBase() any { return &c27View{vals: map[string][]byte{}} }

func c27ModelKeyCount(v any) int { return len(v.(*c27View).keys) }

func (v *c27View) GetValue(_ context.Context, key []byte) ([]byte, error) {
	if val, ok := v.vals[string(key)]; ok {
		return val, nil
	}
	return nil, database.ErrNotFound
}

func (v *c27View) NewView(_ context.Context, changes merkledb.ViewChanges) (any, error) {
	nv := &c27View{vals: map[string][]byte{}}
	for _, k := range v.keys {
		nv.keys = append(nv.keys, k)
		nv.vals[k] = v.vals[k]
	}
	for k, mv := range changes.MapOps {
		_, had := nv.vals[k]
		if mv.HasValue() {
			if !had {
				nv.keys = append(nv.keys, k)
			}
			nv.vals[k] = mv.Value()
		} else if had {
			delete(nv.vals, k)
			var ks []string
			for _, o := range nv.keys {
				if o != k {
					ks = append(ks, o)
				}
			}
			nv.keys = ks
		}
	}
	return nv, nil
}

func (v *c27View) GetMerkleRoot(context.Context) (ids.ID, error) {
	if len(v.keys) == 0 {
		return ids.Empty, nil
	}
	var buf []byte
	for _, k := range v.keys {
		buf = append(buf, byte(len(k)))
		buf = append(buf, k...)
		val := v.vals[k]
		buf = append(buf, byte(len(val)))
		buf = append(buf, val...)
	}
	return utils.ToID(buf), nil
}

func (v *c27View) CommitToDB(context.Context) error { return nil }

// ---- the check ----

func c27Addr(i int) codec.Address { return codec.Address{0x0A, byte(i + 1)} }


// VerifC27Genesis: chain.NewGenesisCommit over DefaultGenesis.InitializeState and the prefix balance handler, for every
// list of up to maxAlloc allocations over two addresses (every duplicate pattern, symbolic 64-bit balances) and every
// minimum price vector.
func VerifC27Genesis() { c27Genesis(verifParam("maxAlloc", 3, 3), 64) }

// VerifC27Many: longer allocation lists with balances below 2^60 (no overflow possible; the solver's work on sums of
// full-range 64-bit values grows steeply with the list length).
func VerifC27Many() { c27Genesis(verifParam("maxAllocMany", 4, 4), 60) }

func c27Genesis(maxAlloc int, balBits uint) {
	ctx := context.Background()
	n := verifChoose("n", maxAlloc+1)
	var allocs []*CustomAllocation
	var sum [2]uint64 // per-address totals (wrap-around is irrelevant when the grand total does not overflow)
	var used [2]bool
	total := uint64(0)
	overflow := false
	for i := 0; i < n; i++ {
		a := 0
		if i > 0 {
			a = verifChoose("addr", 2) // the first allocation goes to address 0 (the two are interchangeable)
		}
		b := verifU64("balance")
		if balBits < 64 {
			verifAssume(b>>balBits == 0)
		}
		allocs = append(allocs, &CustomAllocation{Address: c27Addr(a), Balance: b})
		used[a] = true
		sum[a] += b
		t := total + b
		if t < total {
			overflow = true
		}
		total = t
	}
	g := NewDefaultGenesis(allocs)
	var minPrice fees.Dimensions
	for i := range minPrice {
		minPrice[i] = verifU64("minPrice")
	}
	g.Rules.MinUnitPrice = minPrice
	rf := &ImmutableRuleFactory{Rules: g.Rules}
	mm := metadata.NewDefaultManager()
	bh := balance.NewPrefixBalanceHandler([]byte{metadata.DefaultMinimumPrefix})

	blk, view, err := chain.NewGenesisCommit(ctx, c27BaseView(), g, mm, bh, rf, trace.Noop, logging.NoLog{})
	if overflow {
		if err == nil {
			verifFail("overflowing-supply-accepted")
		}
		verifReach("overflow-rejected")
		verifReach("end")
		return
	}
	if err != nil {
		verifFail("valid-genesis-rejected")
	}
	// allocations
	for a := 0; a < 3; a++ {
		got, err := bh.GetBalance(ctx, c27Addr(a), view)
		if err != nil {
			verifFail("balance-unreadable")
		}
		want := uint64(0)
		if a < 2 {
			want = sum[a]
		}
		if got != want {
			if a == 2 {
				verifFail("unallocated-address-has-balance")
			}
			verifFail("balance-not-sum-of-allocations")
		}
	}
	if n > 1 {
		verifReach("several-allocations")
	}
	// metadata: height 0, timestamp 0
	hv, err := view.GetValue(ctx, chain.HeightKey(mm.HeightPrefix()))
	if err != nil {
		verifFail("height-missing")
	}
	h, err := database.ParseUInt64(hv)
	if err != nil {
		verifFail("height-malformed")
	}
	if h != 0 {
		verifFail("height-not-zero")
	}
	tv, err := view.GetValue(ctx, chain.TimestampKey(mm.TimestampPrefix()))
	if err != nil {
		verifFail("timestamp-missing")
	}
	t, err := database.ParseUInt64(tv)
	if err != nil {
		verifFail("timestamp-malformed")
	}
	if t != 0 {
		verifFail("timestamp-not-zero")
	}
	// fee state: minimum prices, nothing consumed, empty windows
	fv, err := view.GetValue(ctx, chain.FeeKey(mm.FeePrefix()))
	if err != nil {
		verifFail("fee-state-missing")
	}
	fm := internalfees.NewManager(fv)
	for d := fees.Dimension(0); d < fees.FeeDimensions; d++ {
		if fm.UnitPrice(d) != minPrice[d] {
			verifFail("unit-price-not-minimum")
		}
		if fm.LastConsumed(d) != 0 {
			verifFail("genesis-consumption-not-zero")
		}
		w := fm.Window(d)
		acc := byte(0)
		for _, x := range w {
			acc |= x
		}
		if acc != 0 {
			verifFail("genesis-window-not-empty")
		}
	}
	// nothing else: 3 metadata keys + one balance key per allocated address (a zero total may or may not create one)
	nAddr := 0
	for a := 0; a < 2; a++ {
		if used[a] {
			nAddr++
		}
	}
	kc := c27KeyCount(view)
	if kc > 3+nAddr {
		verifFail("unexpected-extra-keys")
	}
	if kc < 3 {
		verifFail("keys-missing")
	}
	// the block commits to this state
	root, err := view.GetMerkleRoot(ctx)
	if err != nil {
		verifFail("root-unavailable")
	}
	if blk.StateRoot != root {
		verifFail("state-root-mismatch")
	}
	if blk.Hght != 0 {
		verifFail("genesis-block-height-not-zero")
	}
	if blk.Prnt != ids.Empty {
		verifFail("genesis-block-has-parent")
	}
	if len(blk.Txs) != 0 {
		verifFail("genesis-block-has-transactions")
	}
	verifReach("end")
}
