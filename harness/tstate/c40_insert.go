package tstate

import (
	"context"

	"github.com/ava-labs/hypersdk/state"
)

// VerifC40Insert: TStateView.Insert admits a value exactly when its chunk count fits the key's two-byte size suffix —
// for a new key, a key present in the parent storage, a key written earlier in the same view and a key written by an
// earlier committed view of the block alike; keys shorter than two bytes are refused.
func VerifC40Insert() {
	ctx := context.Background()
	hi, lo := verifU8("suffixHi"), verifU8("suffixLo")
	key := []byte{0x51, hi, lo}
	maxChunks := int(hi)<<8 | int(lo)
	sizes := []int{0, 1, 64, 65, 128, 129}
	val := make([]byte, sizes[verifChoose("valueSize", len(sizes))])
	chunks := 0
	if len(val) > 0 {
		chunks = len(val)/64 + 1 // a value of n > 0 bytes occupies floor(n/64)+1 chunks
	}
	base := map[string][]byte{}
	ts := New(0)
	where := verifChoose("keyExists", 4) // 0 new key, 1 in parent storage, 2 written earlier in this view, 3 written by an earlier view of the block
	if where == 1 {
		base[string(key)] = []byte{1}
	}
	if where == 3 {
		v0 := ts.NewView(state.CompletePermissions, state.ImmutableStorage(base), 0)
		if maxChunks >= 1 {
			if err := v0.Insert(ctx, key, []byte{1}); err != nil {
				verifFail("setup-insert-error")
			}
		}
		v0.Commit()
	}
	v := ts.NewView(state.CompletePermissions, state.ImmutableStorage(base), 0)
	if where == 2 {
		if maxChunks >= 1 {
			if err := v.Insert(ctx, key, []byte{2}); err != nil {
				verifFail("setup-insert-error")
			}
		}
	}
	err := v.Insert(ctx, key, val)
	if chunks <= maxChunks {
		if err != nil {
			verifFail("fitting-value-refused")
		}
		verifReach("value-fits")
	} else {
		if err == nil {
			verifFail("oversize-value-written")
		}
		verifReach("value-refused")
	}
	// keys without a full size suffix are refused everywhere
	short := []byte{0x51}
	if v.Insert(ctx, short, []byte{}) == nil {
		verifFail("short-key-inserted")
	}
	if _, err := v.GetValue(ctx, short); err == nil {
		verifFail("short-key-read")
	}
	verifReach("end")
}
