package tstate

import (
	"context"

	"github.com/ava-labs/hypersdk/state"
)

// c04opt is the reference model's cell: absent, the empty value (e; a legal value distinct from absence), or a 1-byte value.
type c04opt struct {
	ok bool
	e  bool
	v  byte
}

func c04key(i int) []byte { return []byte{byte(i), 0, 1} }

const c04MaxKeys = 2
const c04MaxOps = 8

// c04read checks the view against the reference model on every key.
func c04read(v *TStateView, vis *[c04MaxKeys]c04opt, nk int, where string) {
	ctx := context.Background()
	for kk := 0; kk < nk; kk++ {
		got, err := v.GetValue(ctx, c04key(kk))
		if (err == nil) != vis[kk].ok {
			if err == nil {
				verifFail(where + "-deleted-key-visible")
			}
			verifFail(where + "-written-key-missing")
		}
		if err == nil {
			if vis[kk].e {
				if len(got) != 0 {
					verifFail(where + "-value-length")
				}
			} else {
				if len(got) != 1 {
					verifFail(where + "-value-length")
				}
				if got[0] != vis[kk].v {
					verifFail(where + "-wrong-value")
				}
			}
		}
	}
}

// VerifC04History: the real TState/TStateView driven by an arbitrary history of insert/remove/checkpoint/rollback
// against a reference map with snapshots, over (parent store) x (block-level pending changes made by an earlier,
// committed view) x (ops of the view under test). Reads after every op; after Commit the block-level change set
// must be the exact diff.
func VerifC04History() {
	ctx := context.Background()
	nk := verifParam("keys", 2, 2)
	maxOps := verifParam("maxOps", 3, 4)
	base := map[string][]byte{}
	var under [c04MaxKeys]c04opt
	for i := 0; i < nk; i++ {
		switch verifChoose("base", 2+verifParam("emptyBaseValues", 0, 1)) {
		case 1:
			b := verifU8("basev")
			base[string(c04key(i))] = []byte{b}
			under[i] = c04opt{ok: true, v: b}
		case 2:
			base[string(c04key(i))] = []byte{}
			under[i] = c04opt{ok: true, e: true}
		}
	}
	ts := New(0)
	store := state.ImmutableStorage(base)
	// block-level pending changes are produced the only way they can be: by an earlier view that commits
	v0 := ts.NewView(state.CompletePermissions, store, 0)
	for i := 0; i < nk; i++ {
		switch verifChoose("pend", 3) {
		case 1:
			b := verifU8("pendv")
			if err := v0.Insert(ctx, c04key(i), []byte{b}); err != nil {
				verifFail("setup-insert-error")
			}
			under[i] = c04opt{ok: true, v: b}
		case 2:
			if err := v0.Remove(ctx, c04key(i)); err != nil {
				verifFail("setup-remove-error")
			}
			under[i] = c04opt{}
		}
	}
	c04read(v0, &under, nk, "setup")
	v0.Commit()
	// block-level entries before the view under test commits
	var blkHas [c04MaxKeys]bool
	var blkVal [c04MaxKeys]c04opt
	for i := 0; i < nk; i++ {
		e, ok := ts.ChangedKeys()[string(c04key(i))]
		blkHas[i] = ok
		if ok && e.HasValue() {
			if len(e.Value()) == 0 {
				blkVal[i] = c04opt{ok: true, e: true}
			} else {
				blkVal[i] = c04opt{ok: true, v: e.Value()[0]}
			}
		}
	}

	v := ts.NewView(state.CompletePermissions, store, 0)
	vis := under
	var cpIdx [c04MaxOps]int
	var cpSnap [c04MaxOps][c04MaxKeys]c04opt
	// the state of the fresh view is a checkpoint for free (Transaction.Execute rolls a failed transaction back to the
	// op index it recorded before the first action), so that two operations on one key followed by a rollback fit
	// into three operations
	cpIdx[0] = v.OpIndex()
	cpSnap[0] = vis
	ncp := 1
	n := 1 + verifChoose("n", maxOps)
	for i := 0; i < n; i++ {
		switch verifChoose("op", 5) {
		case 4:
			// insert the empty value: present, distinct from a delete
			k := verifChoose("key", nk)
			if err := v.Insert(ctx, c04key(k), []byte{}); err != nil {
				verifFail("insert-error")
			}
			vis[k] = c04opt{ok: true, e: true}
			verifReach("empty-value")
		case 0:
			k := verifChoose("key", nk)
			b := verifU8("insv")
			if err := v.Insert(ctx, c04key(k), []byte{b}); err != nil {
				verifFail("insert-error")
			}
			vis[k] = c04opt{ok: true, v: b}
		case 1:
			k := verifChoose("key", nk)
			if err := v.Remove(ctx, c04key(k)); err != nil {
				verifFail("remove-error")
			}
			vis[k] = c04opt{}
		case 2:
			verifAssume(i+1 < n) // a checkpoint as last op adds nothing
			cpIdx[ncp] = v.OpIndex()
			cpSnap[ncp] = vis
			ncp++
		case 3:
			verifAssume(ncp > 0)
			j := verifChoose("cp", ncp)
			v.Rollback(ctx, cpIdx[j])
			vis = cpSnap[j]
			ncp = j + 1
			verifReach("rollback")
		}
		c04read(v, &vis, nk, "read")
	}
	v.Commit()
	ck := ts.ChangedKeys()
	for i := 0; i < nk; i++ {
		e, ok := ck[string(c04key(i))]
		if vis[i] != under[i] {
			// visible value differs from the underlying state: must be published with that value
			if !ok {
				verifFail("commit-missing-changed-key")
			}
			if e.HasValue() != vis[i].ok {
				verifFail("commit-wrong-kind")
			}
			if vis[i].ok {
				if vis[i].e {
					if len(e.Value()) != 0 {
						verifFail("commit-wrong-value")
					}
				} else {
					if len(e.Value()) != 1 {
						verifFail("commit-wrong-value")
					}
					if e.Value()[0] != vis[i].v {
						verifFail("commit-wrong-value")
					}
				}
			}
			verifReach("published")
		} else {
			// unchanged: the block-level entry must be what it was before this view committed
			if ok != blkHas[i] {
				verifFail("commit-published-unchanged-key")
			}
			if ok {
				if e.HasValue() != blkVal[i].ok {
					verifFail("commit-altered-unchanged-key")
				}
				if blkVal[i].ok {
					if blkVal[i].e {
						if len(e.Value()) != 0 {
							verifFail("commit-altered-unchanged-key")
						}
					} else {
						if len(e.Value()) != 1 {
							verifFail("commit-altered-unchanged-key")
						}
						if e.Value()[0] != blkVal[i].v {
							verifFail("commit-altered-unchanged-key")
						}
					}
				}
			}
		}
	}
	// a later view reads the merged state
	v2 := ts.NewView(state.CompletePermissions, store, 0)
	c04read(v2, &vis, nk, "after-commit")
	verifReach("end")
}
