package fetcher

import (
	"context"
	"errors"
	"sync"

	"github.com/ava-labs/avalanchego/database"
	"github.com/ava-labs/avalanchego/ids"

	"github.com/ava-labs/hypersdk/state"
)

const c24MaxKeys = 5
const c24MaxTxs = 3

var errC24 = errors.New("harness: injected read error")

func c24key(k int) string { return string([]byte{byte(k + 1), 0, 1}) }

// c24parent: parent state that records every key requested from it.
type c24parent struct {
	mu      sync.Mutex
	has     [c24MaxKeys]bool
	val     [c24MaxKeys]byte
	failKey int // -1: none
	reqs    [c24MaxKeys]int
	other   int // requests for keys outside the universe (e.g. "")
}

func (p *c24parent) GetValue(_ context.Context, k []byte) ([]byte, error) {
	p.mu.Lock()
	defer p.mu.Unlock()
	idx := -1
	for i := 0; i < c24MaxKeys; i++ {
		if string(k) == c24key(i) {
			idx = i
		}
	}
	if idx < 0 {
		p.other++
		return nil, database.ErrNotFound
	}
	p.reqs[idx]++
	if idx == p.failKey {
		return nil, errC24
	}
	if !p.has[idx] {
		return nil, database.ErrNotFound
	}
	return []byte{p.val[idx]}, nil
}

// VerifC24: the call pattern of Processor.executeTxs — for each transaction Fetch(txID, stateKeys.WithoutPermissions())
// from one goroutine, Get(txID) from another (the executor task) — over 2..3 transactions with arbitrary overlapping key
// sets, arbitrary parent contents, fetch concurrency 1..2, optionally the same transaction twice (same ID, same keys) and
// optionally one key whose read fails, under every schedule within the preemption bound.
func VerifC24() {
	ctx := context.Background()
	nKeys := verifParam("keys", 2, 2)
	nTxs := 2 + verifChoose("txs", verifParam("maxTxs", 2, 2)-1)
	p := &c24parent{failKey: -1}
	for k := 0; k < nKeys; k++ {
		if verifChoose("parentHas", 2) == 1 {
			p.has[k] = true
			p.val[k] = byte(10 + k)
		}
	}
	if verifChoose("injectError", 2) == 1 {
		p.failKey = verifChoose("failKey", nKeys)
	}
	dup := verifChoose("sameTxTwice", 2) == 1 // tx #1 is tx #0 again (same ID, hence same keys)
	conc := 1 + verifChoose("fetchConcurrency", 2)
	f := New(p, nTxs, conc)

	var declared [c24MaxTxs][c24MaxKeys]bool
	var getErr [c24MaxTxs]error
	var got [c24MaxTxs]map[string][]byte
	var done sync.WaitGroup
	var fetchErr error
	anyFailDeclared := false
	for i := 0; i < nTxs; i++ {
		id := ids.ID{byte(i + 1)}
		if dup && i == 1 {
			id = ids.ID{1}
			declared[1] = declared[0]
		} else {
			for k := 0; k < nKeys; k++ {
				declared[i][k] = verifChoose("declares", 2) == 1
			}
		}
		sk := state.Keys{}
		for k := 0; k < nKeys; k++ {
			if declared[i][k] {
				sk[c24key(k)] = state.Read
				if k == p.failKey {
					anyFailDeclared = true
				}
			}
		}
		if err := f.Fetch(ctx, id, sk.WithoutPermissions()); err != nil {
			fetchErr = err
			break
		}
		i := i
		done.Add(1)
		go func() {
			defer done.Done()
			got[i], getErr[i] = f.Get(id)
		}()
	}
	waitErr := f.Wait()
	done.Wait()

	if p.other != 0 {
		verifFail("undeclared-key-read-from-parent")
	}
	for k := 0; k < nKeys; k++ {
		if p.reqs[k] >= 1 {
			anyone := false
			for i := 0; i < nTxs; i++ {
				if declared[i][k] {
					anyone = true
				}
			}
			if !anyone {
				verifFail("undeclared-key-read-from-parent")
			}
		}
	}
	if p.failKey < 0 {
		if waitErr != nil {
			verifFail("wait-error-without-read-error")
		}
		if fetchErr != nil {
			verifFail("fetch-error-without-read-error")
		}
	} else if anyFailDeclared {
		if waitErr == nil {
			if fetchErr == nil {
				verifFail("failing-read-not-reported")
			}
		}
		verifReach("read-error-reported")
	}
	for i := 0; i < nTxs; i++ {
		if got[i] == nil {
			if getErr[i] == nil {
				if fetchErr == nil {
					verifFail("get-returned-nothing")
				}
			}
			if p.failKey < 0 {
				if getErr[i] != nil {
					verifFail("get-error-without-read-error")
				}
			}
			continue
		}
		// a successful Get must show exactly the parent's value/absence of every declared key
		n := 0
		for k := 0; k < nKeys; k++ {
			if !declared[i][k] {
				continue
			}
			if k == p.failKey {
				if dup {
					verifFail("same-tx-twice-failing-read-treated-as-absent")
				}
				verifFail("failing-read-treated-as-absent")
			}
			v, ok := got[i][c24key(k)]
			if ok != p.has[k] {
				if ok {
					verifFail("get-shows-key-absent-in-parent")
				}
				if dup {
					verifFail("same-tx-twice-present-key-treated-as-absent")
				}
				verifFail("present-key-treated-as-absent")
			}
			if ok {
				n++
				if len(v) != 1 {
					verifFail("get-wrong-value")
				}
				if v[0] != p.val[k] {
					verifFail("get-wrong-value")
				}
			}
		}
		if len(got[i]) != n {
			verifFail("get-returns-undeclared-key")
		}
		verifReach("get-ok")
	}
	verifReach("end")
}

// VerifC24Backlog: one transaction declaring more keys than the fetch queue can buffer (queue capacity = number of
// transactions of the block): 2..maxKeys keys, fetch concurrency 1..2, optionally one key whose read fails. Fetch, Get
// and Wait must return on every schedule, report the failing read, and otherwise deliver every key.
func VerifC24Backlog() {
	ctx := context.Background()
	nKeys := 2 + verifChoose("keys", verifParam("maxKeys", 4, c24MaxKeys)-1)
	p := &c24parent{failKey: -1}
	for k := 0; k < nKeys; k++ {
		p.has[k] = true
		p.val[k] = byte(10 + k)
	}
	if verifChoose("injectError", 2) == 1 {
		p.failKey = verifChoose("failKey", nKeys)
	}
	conc := 1 + verifChoose("fetchConcurrency", 2)
	f := New(p, 1, conc)
	sk := state.Keys{}
	for k := 0; k < nKeys; k++ {
		sk[c24key(k)] = state.Read
	}
	id := ids.ID{1}
	fetchErr := f.Fetch(ctx, id, sk.WithoutPermissions())
	var got map[string][]byte
	var getErr error
	if fetchErr == nil {
		got, getErr = f.Get(id)
	}
	waitErr := f.Wait()
	if p.failKey < 0 {
		if fetchErr != nil {
			verifFail("fetch-error-without-read-error")
		}
		if getErr != nil {
			verifFail("get-error-without-read-error")
		}
		if waitErr != nil {
			verifFail("wait-error-without-read-error")
		}
		if len(got) != nKeys {
			verifFail("present-key-treated-as-absent")
		}
		verifReach("all-keys-delivered")
	} else {
		if waitErr == nil {
			if fetchErr == nil {
				verifFail("failing-read-not-reported")
			}
		}
		if fetchErr == nil {
			if getErr == nil {
				verifFail("failing-read-treated-as-absent")
			}
		}
		verifReach("read-error-reported")
	}
	verifReach("end")
}
