package fees

import "math/big"

const c33MaxItems = 4

const c33MaxU64 = ^uint64(0)

// c33limits: the limits of the exact-weights harness (division by a constant keeps the weight comparison decidable
// for the solver; the any-order harnesses use fully symbolic limits).
var c33limits = [4]uint64{10, 0, 1 << 16, 1<<64 - 1}

// c33input: n dimension vectors and a limit. In the first `sym` dimensions the vectors are fully symbolic 64-bit values
// and the limit is symbolic (anyLimit) or one of c33limits; in the remaining dimensions every vector is zero and the
// limit is fixed (0 or 2^40). LargestSet treats all dimensions alike.
func c33input(n, sym int, anyLimit bool) (dims []Dimensions, limit Dimensions) {
	dims = make([]Dimensions, n)
	for k := 0; k < FeeDimensions; k++ {
		if k >= sym {
			if k%2 == 0 {
				limit[k] = 1 << 40
			}
		} else if anyLimit {
			limit[k] = verifU64("limit")
		} else {
			limit[k] = c33limits[verifChoose("limitk", len(c33limits))]
		}
	}
	for i := 0; i < n; i++ {
		for k := 0; k < sym; k++ {
			dims[i][k] = verifU64("dim")
		}
	}
	return dims, limit
}

// c33check states the property on one call of LargestSet: indices distinct and in range; the per-dimension sum of the
// selected vectors does not overflow and is within the limit; the returned total is that sum; no skipped vector fits on
// top of the returned total (the running total only grows while the selector works through the list, so a vector that
// did not fit when it was considered does not fit at the end either — and vice versa a vector that still fits at the end
// fitted when it was considered). Nothing about the processing order is demanded.
func c33check(dims []Dimensions, limit Dimensions, idx []uint64, total Dimensions) {
	n := len(dims)
	if len(idx) > n {
		verifFail("more-indices-than-inputs")
	}
	var picked [c33MaxItems]bool
	for _, ix := range idx {
		if ix >= uint64(n) {
			verifFail("index-out-of-range")
		}
		if picked[ix] {
			verifFail("index-repeated")
		}
		picked[ix] = true
	}
	for k := 0; k < FeeDimensions; k++ {
		sum := uint64(0)
		for _, ix := range idx {
			d := dims[ix][k]
			if d > c33MaxU64-sum {
				verifFail("selected-sum-overflows")
			}
			sum += d
		}
		if sum > limit[k] {
			verifFail("selected-sum-exceeds-limit")
		}
		if total[k] != sum {
			verifFail("total-differs-from-selected-sum")
		}
	}
	for j := 0; j < n; j++ {
		if picked[j] {
			continue
		}
		verifReach("skipped")
		// total[k] <= limit[k] was established above, so "total[k]+d overflows or exceeds limit[k]" is d > limit[k]-total[k]
		fits := true
		for k := 0; k < FeeDimensions; k++ {
			if dims[j][k] > limit[k]-total[k] {
				fits = false
				break
			}
		}
		if fits {
			verifFail("skipped-item-fits")
		}
	}
}

// VerifC33: fees.LargestSet with its real (exact math/big) weights on every list of up to maxItems vectors.
func VerifC33() {
	maxItems := verifParam("maxItems", 2, 2)
	sym := verifParam("symbolicDims", 2, 2)
	n := verifChoose("n", maxItems+1)
	dims, limit := c33input(n, sym, false)
	idx, total := LargestSet(dims, limit)
	if len(idx) == n {
		verifReach("all-selected")
	}
	c33check(dims, limit, idx, total)
	verifReach("end")
}

// c33AnyWeight replaces (*big.Int).Div in the engine run of VerifC33AnyOrder: the quotient, i.e. the per-dimension
// weight term, is an arbitrary small number, so that the items are processed in EVERY order (any preorder of up to
// four items is induced by some assignment). The property does not depend on the order. Natively the real Div runs.
func c33AnyWeight(z, x, y *big.Int) *big.Int {
	return z.SetUint64(uint64(verifU8("weight")))
}

// VerifC33AnyOrder: the greedy accumulation and the compaction of LargestSet for every processing order.
func VerifC33AnyOrder() {
	c33anyOrder(verifParam("maxItems", 3, 3), verifParam("symbolicDims", 2, 3))
}

// VerifC33AnyOrder4: the same for lists of up to four vectors that differ in one dimension (every pattern of fitting,
// exceeding and overflowing items in every processing order).
func VerifC33AnyOrder4() {
	c33anyOrder(verifParam("maxItems", 4, 4), verifParam("symbolicDims", 1, 1))
}

func c33anyOrder(maxItems, sym int) {
	n := verifChoose("n", maxItems+1)
	dims, limit := c33input(n, sym, true)
	idx, total := LargestSet(dims, limit)
	if len(idx) == n {
		verifReach("all-selected")
	}
	c33check(dims, limit, idx, total)
	verifReach("end")
}
