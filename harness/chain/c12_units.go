package chain

import (
	"context"
	"math/big"

	"github.com/ava-labs/avalanchego/ids"

	"github.com/ava-labs/hypersdk/codec"
	"github.com/ava-labs/hypersdk/state"
)

// c12Action declares a fixed key set and compute units; it does nothing when executed.
type c12Action struct {
	keys  state.Keys
	units uint64
}

func (c12Action) ValidRange(Rules) (int64, int64)              { return -1, -1 }
func (c12Action) Bytes() []byte                                { return []byte{1} }
func (c12Action) GetTypeID() uint8                             { return 1 }
func (a c12Action) ComputeUnits(Rules) uint64                  { return a.units }
func (a c12Action) StateKeys(codec.Address, ids.ID) state.Keys { return a.keys }
func (c12Action) Execute(context.Context, Rules, state.Mutable, int64, codec.Address, ids.ID) ([]byte, error) {
	return nil, nil
}

// c12BH: the usual balance handler, but the sponsor key is chosen by the harness (so that it can coincide with a
// key declared by an action).
type c12BH struct {
	hBH
	key string
}

func (b c12BH) SponsorStateKeys(codec.Address) state.Keys {
	return state.Keys{b.key: state.Read | state.Write}
}

var c12max = new(big.Int).SetUint64(18446744073709551615)

func c12big(x uint64) *big.Int { return new(big.Int).SetUint64(x) }

// c12key: a 3-byte state key: a concrete name byte and the declared chunk count as big-endian suffix.
func c12key(name byte, chunks uint16) string {
	return string([]byte{name, byte(chunks >> 8), byte(chunks)})
}

const c12MaxKeys = 8

// VerifC12Units: Transaction.Units against the statement's formula in exact arithmetic.
//
//	bandwidth = encoded size; compute = base + Σ action compute + auth compute;
//	read/allocate/write = Σ over the DISTINCT declared keys (actions ∪ sponsor) of keyCost + chunks(key)·valueCost;
//	an error iff one of these exceeds 2^64-1.
//
// Keys are [name, chunks_hi, chunks_lo]; action i declares the names 0..keysPerAction-1 with symbolic chunk counts, the
// sponsor key has name 0 and a symbolic chunk count, so keys collide across actions and with the sponsor exactly when
// their chunk suffixes are equal (keys differing only in the suffix are different keys).
func VerifC12Units() {
	nA := verifParam("actions", 2, 2)
	perAct := verifParam("keysPerAction", 1, 2)
	r := hDefaultRules()

	// one storage dimension has full-range unit costs (its checked arithmetic can overflow anywhere), the other two
	// have costs in [1, 2^32) (cannot overflow with <= 8 keys of <= 65535 chunks)
	full := verifChoose("fullRangeDim", 3)
	var keyCost, valCost [3]uint64
	for d := 0; d < 3; d++ {
		keyCost[d], valCost[d] = verifU64("keyCost"), verifU64("valCost")
		if d != full {
			verifAssume(keyCost[d] < 1<<32)
			verifAssume(valCost[d] < 1<<32)
			verifAssume(valCost[d] > 0)
		}
	}
	r.keyRead, r.valRead = keyCost[0], valCost[0]
	r.keyAlloc, r.valAlloc = keyCost[1], valCost[1]
	r.keyWrite, r.valWrite = keyCost[2], valCost[2]
	r.base = verifU64("base")

	// a malformed (1-byte) key anywhere makes the transaction unmeterable
	short := verifChoose("shortKey", 2) == 1

	var names [c12MaxKeys]byte
	var chunks [c12MaxKeys]uint16
	nk := 0
	acts := make([]Action, nA)
	compute := c12big(r.base)
	for i := 0; i < nA; i++ {
		ks := state.Keys{}
		for j := 0; j < perAct; j++ {
			c := verifU16("chunks")
			ks[c12key(byte(j), c)] = state.Read
			names[nk], chunks[nk] = byte(j), c
			nk++
		}
		if short {
			if i == nA-1 {
				ks["x"] = state.Read
			}
		}
		u := verifU64("actionUnits")
		compute.Add(compute, c12big(u))
		acts[i] = c12Action{keys: ks, units: u}
	}
	sc := verifU16("sponsorChunks")
	names[nk], chunks[nk] = 0, sc
	nk++
	bh := c12BH{key: c12key(0, sc)}

	addr := codec.Address{1}
	auth := hNewAuth(addr)
	auth.units = verifU64("authUnits")
	compute.Add(compute, c12big(auth.units))
	size := verifInt("size")
	verifAssume(size >= 0)
	tx := &Transaction{
		TransactionData: TransactionData{Base: Base{Timestamp: 1000, MaxFee: 1}, Actions: acts},
		Auth:            auth, size: size, id: ids.ID{1},
	}

	got, err := tx.Units(bh, r)

	if short {
		if err == nil {
			verifFail("units-malformed-key-accepted")
		}
		verifReach("malformed-key")
		verifReach("end")
		return
	}

	// the statement's formula over the distinct keys
	var total [3]*big.Int
	for d := 0; d < 3; d++ {
		total[d] = new(big.Int)
	}
	distinct := 0
	for j := 0; j < nk; j++ {
		dup := false
		for i := 0; i < j; i++ {
			if names[i] == names[j] {
				if chunks[i] == chunks[j] {
					dup = true
				}
			}
		}
		if dup {
			verifReach("duplicate-key")
			continue
		}
		distinct++
		for d := 0; d < 3; d++ {
			x := new(big.Int).Mul(c12big(uint64(chunks[j])), c12big(valCost[d]))
			x.Add(x, c12big(keyCost[d]))
			total[d].Add(total[d], x)
		}
	}
	over := false
	if compute.Cmp(c12max) > 0 {
		over = true
	}
	for d := 0; d < 3; d++ {
		if total[d].Cmp(c12max) > 0 {
			over = true
		}
	}
	if err != nil {
		if !over {
			verifFail("units-spurious-error")
		}
		verifReach("overflow-rejected")
	} else {
		if over {
			verifFail("units-overflow-accepted")
		}
		if got[0] != uint64(size) {
			verifFail("units-bandwidth-wrong")
		}
		if got[1] != compute.Uint64() {
			verifFail("units-compute-wrong")
		}
		if got[2] != total[0].Uint64() {
			verifFail("units-read-wrong")
		}
		if got[3] != total[1].Uint64() {
			verifFail("units-allocate-wrong")
		}
		if got[4] != total[2].Uint64() {
			verifFail("units-write-wrong")
		}
		verifReach("metered")
	}
	verifReach("end")
}
