package chain

import (
	"context"
	"encoding/binary"
	"math/big"
	"time"

	"github.com/ava-labs/avalanchego/database"
	"github.com/ava-labs/avalanchego/ids"
	"github.com/ava-labs/avalanchego/trace"
	"github.com/ava-labs/avalanchego/utils/logging"
	"github.com/ava-labs/avalanchego/utils/set"
	"github.com/ava-labs/avalanchego/x/merkledb"
	"github.com/prometheus/client_golang/prometheus"

	"github.com/ava-labs/hypersdk/codec"
	"github.com/ava-labs/hypersdk/consts"
	"github.com/ava-labs/hypersdk/fees"
	"github.com/ava-labs/hypersdk/internal/validitywindow"
	"github.com/ava-labs/hypersdk/state"

	internalfees "github.com/ava-labs/hypersdk/internal/fees"
)

// Transactions that go through code reading the clock (builder, pre-executor) carry a fixed far-future expiry and the
// rules a validity window that admits it both under the engine's frozen clock and in real time, so that the encoded
// transaction (and hence its size) is the same in the engine and in the native replay.
const (
	c12Expiry = int64(4_000_000_000_000) // year 2096, a whole second
	c12Window = int64(1) << 61
)

func c12Processor() *Processor {
	// metrics that are never registered (NewMetrics registers with a prometheus registry, which the engine treats as opaque)
	c := prometheus.NewCounter(prometheus.CounterOpts{Name: "verif"})
	g := prometheus.NewGauge(prometheus.GaugeOpts{Name: "verif"})
	m := &ChainMetrics{
		txsBuilt: c, txsVerified: c, txsAccepted: c, rootCalculatedCount: c, rootCalculatedSum: g, waitRootCount: c, waitRootSum: g,
		waitSignaturesCount: c, waitSignaturesSum: g, buildCapped: c, emptyBlockBuilt: c, clearedMempool: c, stateChanges: c,
		stateOperations: c, executorBuildBlocked: c, executorBuildExecutable: c, executorVerifyBlocked: c, executorVerifyExecutable: c,
		executorBuildRecorder: &executorMetrics{blocked: c, executable: c}, executorVerifyRecorder: &executorMetrics{blocked: c, executable: c},
	}
	return NewProcessor(trace.Noop, logging.NoLog{}, nil, nil, nil, hMeta{}, hBH{}, nil, m,
		Config{TransactionExecutionCores: 1, StateFetchConcurrency: 1})
}

// VerifC12Verify: the verifier's transaction loop (the real Processor.executeTxs with its fetcher and executor) over a
// block of n transactions with symbolic sizes and compute units and symbolic per-block limits in these two dimensions:
// an accepted block's recorded consumption is the sum of its transactions' units and within the limits; a block is
// rejected (ErrInvalidUnitsConsumed) only if the sum of its transactions' units does not fit.
func VerifC12Verify() {
	ctx := context.Background()
	n := verifParam("txs", 2, 3)
	r := hDefaultRules()
	r.maxBlock[fees.Bandwidth], r.maxBlock[fees.Compute] = verifU64("maxBandwidth"), verifU64("maxCompute")
	parent := hIm{map[string][]byte{}}
	var txs []*Transaction
	var want [][2]uint64
	for i := 0; i < n; i++ {
		addr := codec.Address{byte(1 + i)}
		parent.m[string(hBalKey(addr))] = binary.BigEndian.AppendUint64(nil, 1<<62)
		u := verifU64("actionUnits")
		verifAssume(u < 1<<63) // the transaction's own compute total (base 1 + u + auth 1) is representable
		size := verifInt("size")
		verifAssume(size >= 0)
		verifAssume(size < 1<<40)
		txs = append(txs, &Transaction{
			TransactionData: TransactionData{Base: Base{Timestamp: 2000, MaxFee: 1 << 62}, Actions: []Action{c12Action{keys: state.Keys{}, units: u}}},
			Auth:            hNewAuth(addr), size: size, id: ids.ID{byte(1 + i)},
		})
		want = append(want, [2]uint64{uint64(size), u + 2})
	}
	p := c12Processor()
	blk := &ExecutionBlock{StatelessBlock: &StatelessBlock{Block: Block{Tmstmp: 1500, Hght: 1, Txs: txs}}}
	fm := internalfees.NewManager(nil)
	// compute is free so that any compute units are affordable; the other dimensions cost 1
	for d := fees.Dimension(0); d < fees.FeeDimensions; d++ {
		fm.SetUnitPrice(d, 1)
	}
	fm.SetUnitPrice(fees.Compute, 0)

	results, _, err := p.executeTxs(ctx, blk, parent, fm, r)

	// Σ units of the block's transactions, exactly
	sumB, sumC := new(big.Int), new(big.Int)
	for i := 0; i < n; i++ {
		sumB.Add(sumB, c12big(want[i][0]))
		sumC.Add(sumC, c12big(want[i][1]))
	}
	if err != nil {
		if sumB.Cmp(c12big(r.maxBlock[fees.Bandwidth])) <= 0 {
			if sumC.Cmp(c12big(r.maxBlock[fees.Compute])) <= 0 {
				verifFail("verify-rejected-block-that-fits")
			}
		}
		verifReach("block-rejected")
		verifReach("end")
		return
	}
	now := fm.UnitsConsumed()
	if sumB.Cmp(c12big(r.maxBlock[fees.Bandwidth])) > 0 {
		verifFail("verify-accepted-block-over-limit")
	}
	if sumC.Cmp(c12big(r.maxBlock[fees.Compute])) > 0 {
		verifFail("verify-accepted-block-over-limit")
	}
	if c12big(now[fees.Bandwidth]).Cmp(sumB) != 0 {
		verifFail("verify-consumption-not-sum-of-units")
	}
	if c12big(now[fees.Compute]).Cmp(sumC) != 0 {
		verifFail("verify-consumption-not-sum-of-units")
	}
	// the per-transaction results report the same units that were consumed
	var acc fees.Dimensions
	for i := 0; i < n; i++ {
		if results[i] == nil {
			verifFail("verify-missing-result")
		}
		if results[i].Units[fees.Bandwidth] != want[i][0] {
			verifFail("verify-result-units-wrong")
		}
		if results[i].Units[fees.Compute] != want[i][1] {
			verifFail("verify-result-units-wrong")
		}
		for d := 0; d < fees.FeeDimensions; d++ {
			acc[d] += results[i].Units[d]
		}
	}
	for d := 0; d < fees.FeeDimensions; d++ {
		if now[d] != acc[d] {
			verifFail("verify-consumption-not-sum-of-result-units")
		}
		if now[d] > r.maxBlock[d] {
			verifFail("verify-limit-exceeded")
		}
	}
	verifReach("block-accepted")
	verifReach("end")
}

// c12View: a merkledb.View whose content is a map (root = generation counter); only the methods the builder uses.
type c12View struct {
	merkledb.View
	m   map[string][]byte
	gen byte
}

func (v *c12View) GetValue(_ context.Context, k []byte) ([]byte, error) {
	x, ok := v.m[string(k)]
	if !ok {
		return nil, database.ErrNotFound
	}
	return x, nil
}
func (v *c12View) GetMerkleRoot(context.Context) (ids.ID, error) { return ids.ID{v.gen}, nil }
func (v *c12View) NewView(_ context.Context, ch merkledb.ViewChanges) (merkledb.View, error) {
	n := &c12View{m: map[string][]byte{}, gen: v.gen + 1}
	for k, x := range v.m {
		n.m[k] = x
	}
	for k, x := range ch.MapOps {
		if x.HasValue() {
			n.m[k] = x.Value()
		} else {
			delete(n.m, k)
		}
	}
	return n, nil
}

type c12VW struct{}

func (c12VW) VerifyExpiryReplayProtection(context.Context, validitywindow.ExecutionBlock[*Transaction]) error {
	return nil
}
func (c12VW) Accept(validitywindow.ExecutionBlock[*Transaction]) {}
func (c12VW) IsRepeat(context.Context, validitywindow.ExecutionBlock[*Transaction], int64, []*Transaction) (set.Bits, error) {
	return set.NewBits(), nil
}

// c12Pool: a mempool that streams its transactions once, in order.
type c12Pool struct {
	txs      []*Transaction
	restored []*Transaction
}

func (p *c12Pool) Len(context.Context) int             { return len(p.txs) }
func (p *c12Pool) Size(context.Context) int            { return 0 }
func (p *c12Pool) Add(context.Context, []*Transaction) {}
func (p *c12Pool) StartStreaming(context.Context)      {}
func (p *c12Pool) PrepareStream(context.Context, int)  {}
func (p *c12Pool) Stream(context.Context, int) []*Transaction {
	out := p.txs
	p.txs = nil
	return out
}
func (p *c12Pool) FinishStreaming(_ context.Context, r []*Transaction) int {
	p.restored = append(p.restored, r...)
	return len(r)
}

type c12RF struct{ r Rules }

func (f c12RF) GetRules(int64) Rules { return f.r }

// VerifC12Build: the real Builder.BuildBlock over a mempool of n real (marshalled) transactions with symbolic compute
// units, symbolic per-block limits (bandwidth, compute) and symbolic compute target: the built block's recorded
// consumption -- in the execution results and in the fee state written to the block's view -- is the sum of the units of
// exactly the included transactions and within the limits (a transaction that did not fit contributes nothing).
func VerifC12Build() {
	ctx := context.Background()
	n := verifParam("txs", 2, 3)
	r := hDefaultRules()
	r.maxBlock[fees.Bandwidth], r.maxBlock[fees.Compute] = verifU64("maxBandwidth"), verifU64("maxCompute")
	r.target[fees.Compute] = verifU64("targetCompute")
	verifAssume(r.target[fees.Compute] > 0)
	r.window = c12Window
	now := time.Now().UnixMilli()
	expiry := c12Expiry
	parentTs := now - 5000

	view := &c12View{m: map[string][]byte{}}
	fm0 := internalfees.NewManager(nil)
	view.m[string(HeightKey(hMeta{}.HeightPrefix()))] = binary.BigEndian.AppendUint64(nil, 0)
	view.m[string(TimestampKey(hMeta{}.TimestampPrefix()))] = binary.BigEndian.AppendUint64(nil, uint64(parentTs))
	view.m[string(FeeKey(hMeta{}.FeePrefix()))] = fm0.Bytes()
	var txs []*Transaction
	var units []uint64
	for i := 0; i < n; i++ {
		addr := codec.Address{byte(1 + i)}
		view.m[string(hBalKey(addr))] = binary.BigEndian.AppendUint64(nil, 1<<62)
		u := verifU64("actionUnits")
		verifAssume(u < 1<<40) // affordable at the minimum unit price
		tx, err := NewTransaction(Base{Timestamp: expiry, MaxFee: 1 << 62}, []Action{c12Action{keys: state.Keys{}, units: u}}, hNewAuth(addr))
		if err != nil {
			verifFail("setup-new-transaction")
		}
		txs = append(txs, tx)
		units = append(units, u+2)
	}
	pool := &c12Pool{txs: txs}
	p := c12Processor()
	b := NewBuilder(trace.Noop, c12RF{r}, logging.NoLog{}, hMeta{}, hBH{}, pool, c12VW{}, p.metrics,
		Config{TransactionExecutionCores: 1, StateFetchConcurrency: 1, TargetBuildDuration: time.Minute, TargetTxsSize: 1 << 20})
	parentBlk := &ExecutionBlock{StatelessBlock: &StatelessBlock{Block: Block{Tmstmp: parentTs, Hght: 0}, id: ids.ID{99}}}
	blk, out, err := b.BuildBlock(ctx, nil, &OutputBlock{ExecutionBlock: parentBlk, View: view})
	if err != nil {
		// the builder produced no block: nothing to check for this property (vacuity markers require built blocks elsewhere)
		verifReach("build-error")
		verifReach("end")
		return
	}
	res := out.ExecutionResults
	if len(blk.StatelessBlock.Txs) != len(res.Results) {
		verifFail("build-results-do-not-match-transactions")
	}
	var acc fees.Dimensions
	for j, tx := range blk.StatelessBlock.Txs {
		// which mempool transaction is it?
		idx := -1
		for i := 0; i < n; i++ {
			if tx == txs[i] {
				idx = i
			}
		}
		if idx < 0 {
			verifFail("build-foreign-transaction")
		}
		got := res.Results[j].Units
		if got[fees.Bandwidth] != uint64(tx.Size()) {
			verifFail("build-result-units-wrong")
		}
		if got[fees.Compute] != units[idx] {
			verifFail("build-result-units-wrong")
		}
		for d := 0; d < fees.FeeDimensions; d++ {
			if got[d] > consts.MaxUint64-acc[d] {
				verifFail("build-consumption-wraps")
			}
			acc[d] += got[d]
		}
		verifReach("included")
	}
	if len(blk.StatelessBlock.Txs) < n {
		verifReach("skipped")
	}
	for d := 0; d < fees.FeeDimensions; d++ {
		if res.UnitsConsumed[d] != acc[d] {
			verifFail("build-consumption-not-sum-of-included-units")
		}
		if res.UnitsConsumed[d] > r.maxBlock[d] {
			verifFail("build-limit-exceeded")
		}
	}
	// the fee state persisted with the block records the same consumption
	raw, gerr := out.View.GetValue(ctx, FeeKey(hMeta{}.FeePrefix()))
	if gerr != nil {
		verifFail("build-fee-state-missing")
	}
	if internalfees.NewManager(raw).UnitsConsumed() != res.UnitsConsumed {
		verifFail("build-persisted-consumption-differs")
	}
	verifReach("end")
}
