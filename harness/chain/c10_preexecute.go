package chain

import (
	"context"
	"encoding/binary"

	"github.com/ava-labs/avalanchego/ids"

	"github.com/ava-labs/hypersdk/codec"
	"github.com/ava-labs/hypersdk/fees"
	"github.com/ava-labs/hypersdk/state"

	internalfees "github.com/ava-labs/hypersdk/internal/fees"
)

// c10Action: an action without state keys and with a configurable activation range.
type c10Action struct{ start, end int64 }

func (a c10Action) ValidRange(Rules) (int64, int64)              { return a.start, a.end }
func (c10Action) Bytes() []byte                                  { return []byte{1} }
func (c10Action) GetTypeID() uint8                               { return 1 }
func (c10Action) ComputeUnits(Rules) uint64                      { return 1 }
func (c10Action) StateKeys(codec.Address, ids.ID) state.Keys     { return state.Keys{} }
func (c10Action) Execute(context.Context, Rules, state.Mutable, int64, codec.Address, ids.ID) ([]byte, error) {
	return nil, nil
}

func c10InRange(ts, start, end int64) bool {
	if start >= 0 {
		if ts < start {
			return false
		}
	}
	if end >= 0 {
		if ts > end {
			return false
		}
	}
	return true
}

// VerifC10PreExecute: Transaction.PreExecute accepts only inside the validity interval, on the right chain,
// with at most the allowed number of actions, all activated at the block timestamp.
func VerifC10PreExecute() {
	maxN := verifParam("maxActions", 2, 3)
	r := hDefaultRules()
	r.window = verifI64("window")
	r.maxActions = verifU8("maxActionsRule")
	// chain IDs: symbolic in two byte positions (first and last), rest equal
	var txChain, ruleChain ids.ID
	txChain[0], txChain[31] = verifU8("txchain"), verifU8("txchain")
	ruleChain[0], ruleChain[31] = verifU8("rulechain"), verifU8("rulechain")
	r.chainID = ruleChain
	exp, ts := verifI64("expiry"), verifI64("ts")
	verifAssume(ts >= 0)
	verifAssume(r.window >= 0)

	n := verifChoose("nactions", maxN+1)
	acts := make([]Action, n)
	rng := make([][2]int64, n)
	for i := 0; i < n; i++ {
		rng[i] = [2]int64{verifI64("astart"), verifI64("aend")}
		acts[i] = c10Action{rng[i][0], rng[i][1]}
	}
	addr := codec.Address{1}
	auth := hNewAuth(addr)
	auth.start, auth.end = verifI64("authstart"), verifI64("authend")
	tx := &Transaction{
		TransactionData: TransactionData{Base: Base{Timestamp: exp, ChainID: txChain, MaxFee: 1 << 40}, Actions: acts},
		Auth:            auth, size: 50, id: ids.ID{1},
	}
	parent := hIm{map[string][]byte{string(hBalKey(addr)): binary.BigEndian.AppendUint64(nil, 1<<50)}}
	fm := internalfees.NewManager(nil)
	for d := fees.Dimension(0); d < fees.FeeDimensions; d++ {
		fm.SetUnitPrice(d, 1)
	}
	err := tx.PreExecute(context.Background(), fm, hBH{}, r, parent, ts)
	if err == nil {
		if exp%1000 != 0 {
			verifFail("misaligned-expiry-accepted")
		}
		if exp < ts {
			verifFail("expired-accepted")
		}
		if exp-ts > r.window { // exp >= ts >= 0: no overflow
			verifFail("too-far-in-future-accepted")
		}
		if txChain[0] != ruleChain[0] {
			verifFail("wrong-chain-accepted")
		}
		if txChain[31] != ruleChain[31] {
			verifFail("wrong-chain-accepted")
		}
		if n > int(r.maxActions) {
			verifFail("too-many-actions-accepted")
		}
		for i := 0; i < n; i++ {
			if !c10InRange(ts, rng[i][0], rng[i][1]) {
				verifFail("inactive-action-accepted")
			}
		}
		if !c10InRange(ts, auth.start, auth.end) {
			verifFail("inactive-auth-accepted")
		}
		verifReach("accepted")
	} else {
		verifReach("rejected")
	}
	verifReach("end")
}

// VerifC10ActionCount: the action-count limit for transactions far beyond it — counts at and around the 8- and 9-bit
// boundaries (the limit is a uint8, the count an int) with every value of the limit; all actions always active.
func VerifC10ActionCount() {
	counts := []int{0, 1, 254, 255, 256, 257, 271, 272, 511, 512, 513}
	n := counts[verifChoose("nactions", len(counts))]
	r := hDefaultRules()
	r.maxActions = verifU8("maxActionsRule")
	acts := make([]Action, n)
	for i := range acts {
		acts[i] = c10Action{-1, -1}
	}
	addr := codec.Address{1}
	tx := &Transaction{
		TransactionData: TransactionData{Base: Base{Timestamp: 2000, ChainID: r.chainID, MaxFee: 1 << 40}, Actions: acts},
		Auth:            hNewAuth(addr), size: 50, id: ids.ID{1},
	}
	parent := hIm{map[string][]byte{string(hBalKey(addr)): binary.BigEndian.AppendUint64(nil, 1<<50)}}
	fm := internalfees.NewManager(nil)
	for d := fees.Dimension(0); d < fees.FeeDimensions; d++ {
		fm.SetUnitPrice(d, 1)
	}
	err := tx.PreExecute(context.Background(), fm, hBH{}, r, parent, 1500)
	if err == nil {
		if n > int(r.maxActions) {
			verifFail("too-many-actions-accepted")
		}
		verifReach("accepted")
	} else {
		if n <= int(r.maxActions) {
			verifFail("allowed-action-count-rejected")
		}
		verifReach("rejected")
	}
	verifReach("end")
}
