package chain

// C15: transactions, blocks, batches and results have one canonical encoding.
//
// Three families of harnesses, all running the real generated canoto code, the canoto runtime, the hand-written
// Transaction/StatelessBlock (un)marshalling and the real codec.TypeParser:
//   *Bytes     an ARBITRARY buffer of every length up to a bound is parsed; whatever is accepted must re-encode to
//              exactly the input (and, for transactions/blocks, carry the ID = hash(input) and the unsigned bytes =
//              encoding of (Base, Actions) without auth).
//   *Mutated   a full-size valid encoding of a symbolic value in which, at any position, up to d bytes are cut and up
//   *Fields    to w arbitrary bytes inserted / whose top-level fields are any sequence (reordered, duplicated, missing):
//              same oracle (reaches the long fixed-size fields an arbitrary short buffer cannot contain).
//   *RoundTrip parse(encode(v)) == v for a symbolic structured value v.
//
// Actions and auth are harness types whose wire form is exactly `typeID ‖ 1 payload byte`, registered with the real
// codec.TypeParser: canonical by construction, so that the framework's canonicality is what is checked.

import (
	"context"
	"errors"

	"github.com/ava-labs/avalanchego/ids"
	"github.com/ava-labs/avalanchego/snow/engine/snowman/block"

	"github.com/ava-labs/hypersdk/codec"
	"github.com/ava-labs/hypersdk/state"
	"github.com/ava-labs/hypersdk/utils"
)

var c15ErrSize = errors.New("harness: action/auth must be typeID plus one payload byte")

type c15Action struct{ id, p byte }

func (a c15Action) GetTypeID() uint8                           { return a.id }
func (a c15Action) Bytes() []byte                              { return []byte{a.id, a.p} }
func (c15Action) ValidRange(Rules) (int64, int64)              { return -1, -1 }
func (c15Action) ComputeUnits(Rules) uint64                    { return 1 }
func (c15Action) StateKeys(codec.Address, ids.ID) state.Keys   { return state.Keys{} }
func (c15Action) Execute(context.Context, Rules, state.Mutable, int64, codec.Address, ids.ID) ([]byte, error) {
	return nil, nil
}

type c15Auth struct{ id, p byte }

func (a c15Auth) GetTypeID() uint8                   { return a.id }
func (a c15Auth) Bytes() []byte                      { return []byte{a.id, a.p} }
func (c15Auth) ValidRange(Rules) (int64, int64)      { return -1, -1 }
func (c15Auth) ComputeUnits(Rules) uint64            { return 1 }
func (c15Auth) Verify(context.Context, []byte) error { return nil }
func (a c15Auth) Actor() codec.Address               { return codec.Address{a.id, a.p} }
func (a c15Auth) Sponsor() codec.Address             { return codec.Address{a.id, a.p} }

const (
	c15ActionTypes = 2 // registered action type IDs 0,1
	c15AuthType    = 3 // registered auth type ID
)

// c15Parser: the real TxTypeParser over real codec.TypeParser registries with the harness decoders.
func c15Parser() Parser {
	ar := codec.NewTypeParser[Action]()
	for id := 0; id < c15ActionTypes; id++ {
		tid := byte(id)
		if err := ar.Register(c15Action{id: tid}, func(b []byte) (Action, error) {
			if len(b) != 2 {
				return nil, c15ErrSize
			}
			return c15Action{tid, b[1]}, nil
		}); err != nil {
			verifFail("register-action")
		}
	}
	au := codec.NewTypeParser[Auth]()
	if err := au.Register(c15Auth{id: c15AuthType}, func(b []byte) (Auth, error) {
		if len(b) != 2 {
			return nil, c15ErrSize
		}
		return c15Auth{c15AuthType, b[1]}, nil
	}); err != nil {
		verifFail("register-auth")
	}
	return NewTxTypeParser(ar, au)
}

// c15Same fails with label unless a and b are byte-wise identical.
func c15Same(a, b []byte, label string) {
	if len(a) != len(b) {
		verifFail(label + "-length")
	}
	var acc byte
	for i := range a {
		acc |= a[i] ^ b[i]
	}
	if acc != 0 {
		verifFail(label + "-bytes")
	}
}

func c15SameID(a, b ids.ID, label string) {
	var acc byte
	for i := range a {
		acc |= a[i] ^ b[i]
	}
	if acc != 0 {
		verifFail(label)
	}
}

func c15Copy(b []byte) []byte { return append([]byte{}, b...) }

// c15Mutate: at any position of enc, either cut up to maxCut bytes and insert up to maxIns arbitrary bytes, or
// overwrite a run of 8, 32 or 40 bytes with zeros (a fixed-width field whose value is zero must be absent).
func c15Mutate(enc []byte, maxCut, maxIns int) []byte {
	p := verifChoose("mutPos", len(enc)+1)
	if verifChoose("mutKind", 2) == 1 {
		k := []int{8, 32, 40}[verifChoose("zeroRun", 3)]
		if p+k > len(enc) {
			verifAssume(false)
		}
		out := c15Copy(enc)
		for i := 0; i < k; i++ {
			out[p+i] = 0
		}
		return out
	}
	d := verifChoose("mutCut", maxCut+1)
	w := verifChoose("mutIns", maxIns+1)
	if p+d > len(enc) {
		verifAssume(false)
	}
	out := c15Copy(enc[:p])
	out = append(out, verifBytes("mut", w)...)
	out = append(out, enc[p+d:]...)
	return out
}

// ---------------------------------------------------------------------------------------------------------------------
// Result / ExecutionResults

// VerifC15ResultBytes: UnmarshalResult on an arbitrary buffer.
func VerifC15ResultBytes() {
	l := verifChoose("len", verifParam("resultMaxLen", 8, 9)+1)
	buf := verifBytes("b", l)
	in := c15Copy(buf)
	r, err := UnmarshalResult(buf)
	if err != nil {
		verifReach("rejected")
		verifReach("end")
		return
	}
	verifReach("accepted")
	c15Same(r.Marshal(), in, "result-reencode")
	verifReach("end")
}

// c15Result: a result with every field present (full-size encoding: 2+3+2x3+42+9 = 62 bytes). The values are fixed
// except the error/output bytes: every byte of the encoding becomes arbitrary through the callers' mutation window.
func c15Result() *Result {
	r := &Result{Success: true, Error: verifBytes("err", 1), Outputs: [][]byte{verifBytes("out", 1), verifBytes("out", 1)}, Fee: 0x1112131415161718}
	for i := range r.Units {
		r.Units[i] = 0x2122232425262728 + uint64(i)
	}
	return r
}

// VerifC15ResultMutated: a full-size result encoding with a cut/insert mutation at any position.
func VerifC15ResultMutated() {
	enc := c15Result().Marshal()
	buf := c15Mutate(enc, verifParam("resultMutCut", 1, 1), verifParam("resultMutIns", 1, 2))
	in := c15Copy(buf)
	r, err := UnmarshalResult(buf)
	if err != nil {
		verifReach("rejected")
		verifReach("end")
		return
	}
	verifReach("accepted")
	c15Same(r.Marshal(), in, "result-mutated-reencode")
	verifReach("end")
}

func c15SameResult(a, b *Result, label string) {
	if a.Success != b.Success {
		verifFail(label + "-success")
	}
	c15Same(a.Error, b.Error, label+"-error")
	if len(a.Outputs) != len(b.Outputs) {
		verifFail(label + "-outputs")
	}
	for i := range a.Outputs {
		c15Same(a.Outputs[i], b.Outputs[i], label+"-output")
	}
	var acc uint64
	for i := range a.Units {
		acc |= a.Units[i] ^ b.Units[i]
	}
	acc |= a.Fee ^ b.Fee
	if acc != 0 {
		verifFail(label + "-units-fee")
	}
}

// c15AnyResult: a symbolic result, each field present or zero, 0..2 outputs of 0..1 bytes.
func c15AnyResult() *Result {
	r := &Result{Success: verifBool("success"), Error: verifBytes("err", verifChoose("errLen", 3)), Fee: verifU64("fee")}
	n := verifChoose("outputs", 3)
	for i := 0; i < n; i++ {
		r.Outputs = append(r.Outputs, verifBytes("out", verifChoose("outLen", 2)))
	}
	if verifChoose("unitsPresent", 2) == 1 {
		for i := range r.Units {
			r.Units[i] = verifU64("units")
		}
	}
	return r
}

// VerifC15ResultRoundTrip: UnmarshalResult(Marshal(r)) == r.
func VerifC15ResultRoundTrip() {
	r := c15AnyResult()
	enc := r.Marshal()
	back, err := UnmarshalResult(c15Copy(enc))
	if err != nil {
		verifFail("result-roundtrip-rejected")
	}
	c15SameResult(r, back, "result-roundtrip")
	c15Same(back.Marshal(), enc, "result-roundtrip-reencode")
	verifReach("end")
}

// VerifC15ResultsBytes: ParseExecutionResults on an arbitrary buffer.
func VerifC15ResultsBytes() {
	l := verifChoose("len", verifParam("resultsMaxLen", 7, 8)+1)
	buf := verifBytes("b", l)
	in := c15Copy(buf)
	r, err := ParseExecutionResults(buf)
	if err != nil {
		verifReach("rejected")
		verifReach("end")
		return
	}
	verifReach("accepted")
	c15Same(r.Marshal(), in, "results-reencode")
	verifReach("end")
}

// VerifC15ResultsMutated: full-size ExecutionResults (full results, prices, consumed) with a mutation.
func VerifC15ResultsMutated() {
	e := &ExecutionResults{}
	for i := verifParam("resultsMutResults", 1, 2); i > 0; i-- {
		e.Results = append(e.Results, c15Result())
	}
	for i := range e.UnitPrices {
		e.UnitPrices[i] = 0x3132333435363738 + uint64(i)
		e.UnitsConsumed[i] = 0x4142434445464748 + uint64(i)
	}
	enc := e.Marshal()
	buf := c15Mutate(enc, verifParam("resultsMutCut", 1, 1), verifParam("resultsMutIns", 1, 1))
	in := c15Copy(buf)
	r, err := ParseExecutionResults(buf)
	if err != nil {
		verifReach("rejected")
		verifReach("end")
		return
	}
	verifReach("accepted")
	c15Same(r.Marshal(), in, "results-mutated-reencode")
	verifReach("end")
}

// VerifC15ResultsRoundTrip: ParseExecutionResults(Marshal(e)) == e (results that are not entirely zero: an all-zero
// result is the empty message, which canoto decodes as a nil entry).
func VerifC15ResultsRoundTrip() {
	n := verifChoose("results", 3)
	e := &ExecutionResults{}
	for i := 0; i < n; i++ {
		r := c15Result() // full-size
		if i == 0 {
			r = c15AnyResult() // any shape
			verifAssume(r.Fee != 0)
		}
		e.Results = append(e.Results, r)
	}
	if verifChoose("pricesPresent", 2) == 1 {
		for i := range e.UnitPrices {
			e.UnitPrices[i] = verifU64("prices")
		}
	}
	for i := range e.UnitsConsumed {
		e.UnitsConsumed[i] = verifU64("consumed")
	}
	enc := e.Marshal()
	back, err := ParseExecutionResults(c15Copy(enc))
	if err != nil {
		verifFail("results-roundtrip-rejected")
	}
	if len(back.Results) != n {
		verifFail("results-roundtrip-count")
	}
	for i := 0; i < n; i++ {
		if back.Results[i] == nil {
			verifFail("results-roundtrip-nil")
		}
		c15SameResult(e.Results[i], back.Results[i], "results-roundtrip")
	}
	var acc uint64
	for i := range e.UnitPrices {
		acc |= e.UnitPrices[i] ^ back.UnitPrices[i]
		acc |= e.UnitsConsumed[i] ^ back.UnitsConsumed[i]
	}
	if acc != 0 {
		verifFail("results-roundtrip-dimensions")
	}
	verifReach("end")
}

// ---------------------------------------------------------------------------------------------------------------------
// Base

func c15SameBase(a, b *Base, label string) {
	if a.Timestamp != b.Timestamp {
		verifFail(label + "-timestamp")
	}
	c15SameID(a.ChainID, b.ChainID, label+"-chainid")
	if a.MaxFee != b.MaxFee {
		verifFail(label + "-maxfee")
	}
}

// VerifC15BaseBytes: Base.UnmarshalCanoto on an arbitrary buffer.
func VerifC15BaseBytes() {
	l := verifChoose("len", verifParam("baseMaxLen", 10, 12)+1)
	buf := verifBytes("b", l)
	in := c15Copy(buf)
	var b Base
	if err := b.UnmarshalCanoto(buf); err != nil {
		verifReach("rejected")
		verifReach("end")
		return
	}
	verifReach("accepted")
	c15Same(b.MarshalCanoto(), in, "base-reencode")
	verifReach("end")
}

// c15Base: a base with every field present (timestamp as a 6-byte varint): 7+34+9 = 50 bytes.
func c15Base() Base {
	b := Base{Timestamp: 1_700_000_000_000, MaxFee: 0x0102030405060708}
	for i := range b.ChainID {
		b.ChainID[i] = byte(0xa0 + i)
	}
	return b
}

// VerifC15BaseMutated: the full-size base encoding with a cut/insert mutation at any position.
func VerifC15BaseMutated() {
	b0 := c15Base()
	enc := b0.MarshalCanoto()
	buf := c15Mutate(enc, verifParam("baseMutCut", 1, 2), verifParam("baseMutIns", 2, 2))
	in := c15Copy(buf)
	var b Base
	if err := b.UnmarshalCanoto(buf); err != nil {
		verifReach("rejected")
		verifReach("end")
		return
	}
	verifReach("accepted")
	c15Same(b.MarshalCanoto(), in, "base-mutated-reencode")
	verifReach("end")
}

func c15AnyBase() Base {
	b := Base{Timestamp: verifI64("ts"), MaxFee: verifU64("maxfee")}
	if verifChoose("chainPresent", 2) == 1 {
		copy(b.ChainID[:], verifBytes("chain", 32))
	}
	return b
}

// VerifC15BaseRoundTrip: Unmarshal(Marshal(b)) == b for every base.
func VerifC15BaseRoundTrip() {
	b := c15AnyBase()
	enc := b.MarshalCanoto()
	var back Base
	if err := back.UnmarshalCanoto(c15Copy(enc)); err != nil {
		verifFail("base-roundtrip-rejected")
	}
	c15SameBase(&b, &back, "base-roundtrip")
	verifReach("end")
}

// ---------------------------------------------------------------------------------------------------------------------
// Transaction

// c15CheckTx: the obligations of an accepted transaction encoding `in`.
func c15CheckTx(tx *Transaction, in []byte, label string) {
	c15Same(tx.Bytes(), in, label+"-cached-bytes")
	if tx.Size() != len(in) {
		verifFail(label + "-size")
	}
	c15SameID(tx.GetID(), utils.ToID(in), label+"-id-not-hash-of-bytes")
	// re-encoding through the constructor gives the same bytes (hence the same ID: it is the hash of the bytes)
	re, err := NewTransaction(tx.Base, tx.Actions, tx.Auth)
	if err != nil {
		verifFail(label + "-reconstruct")
	}
	c15Same(re.Bytes(), in, label+"-reencode")
	// the signed message is the encoding of (Base, Actions) without auth (what NewTxData/NewTransaction compute) ...
	unsigned := tx.UnsignedBytes()
	c15Same(unsigned, re.UnsignedBytes(), label+"-unsigned-bytes")
	// ... and the accepted bytes are that message followed by the auth field only (so a body and a signature
	// determine the accepted encoding)
	authOnly := &SerializeTx{Auth: tx.Auth.Bytes()}
	whole := append(c15Copy(unsigned), authOnly.MarshalCanoto()...)
	c15Same(whole, in, label+"-not-unsigned-plus-auth")
	// a second signer signing the same body (e.g. another sponsor) yields its own transaction and leaves the accepted
	// one — its bytes, hence its ID — untouched
	if _, isHarnessAuth := tx.Auth.(c15Auth); isHarnessAuth {
		other, err := tx.TransactionData.Sign(c15Factory{auth: c15Auth{c15AuthType, 0x5a}, want: unsigned})
		if err != nil {
			verifFail(label + "-resign")
		}
		c15Same(tx.Bytes(), in, label+"-bytes-changed-by-signing-the-body-again")
		c15SameID(tx.GetID(), utils.ToID(in), label+"-id-changed-by-signing-the-body-again")
		c15Same(other.UnsignedBytes(), unsigned, label+"-resigned-body-differs")
	}
}

// VerifC15TxBytes: UnmarshalTx on an arbitrary buffer.
func VerifC15TxBytes() {
	l := verifChoose("len", verifParam("txMaxLen", 8, 9)+1)
	buf := verifBytes("b", l)
	in := c15Copy(buf)
	tx, err := UnmarshalTx(buf, c15Parser())
	if err != nil {
		verifReach("rejected")
		verifReach("end")
		return
	}
	verifReach("accepted")
	if len(tx.Actions) > 0 {
		verifReach("accepted-with-action")
	}
	c15CheckTx(tx, in, "tx")
	verifReach("end")
}

// c15Tx: a full-size transaction: base with all fields (fixed values; every byte of the encoding becomes arbitrary
// through the mutation window of the callers), n actions and auth with symbolic payloads (64 bytes for n = 2).
func c15Tx(n int) *Transaction {
	b := c15Base()
	actions := make([]Action, n)
	for i := range actions {
		actions[i] = c15Action{verifU8("atype") & 1, verifU8("apayload")}
	}
	tx, err := NewTransaction(b, actions, c15Auth{c15AuthType, verifU8("authpayload")})
	if err != nil {
		verifFail("new-transaction")
	}
	return tx
}

// VerifC15TxMutated: a full-size transaction encoding with a cut/insert mutation at any position.
func VerifC15TxMutated() {
	enc := c15Tx(2).Bytes()
	buf := c15Mutate(enc, verifParam("txMutCut", 1, 2), verifParam("txMutIns", 1, 2))
	in := c15Copy(buf)
	tx, err := UnmarshalTx(buf, c15Parser())
	if err != nil {
		verifReach("rejected")
		verifReach("end")
		return
	}
	verifReach("accepted")
	c15CheckTx(tx, in, "tx-mutated")
	verifReach("end")
}

// VerifC15TxFields: the top-level fields of a valid transaction in any sequence (missing, reordered, duplicated).
func VerifC15TxFields() {
	tx := c15Tx(2)
	sb := &SerializeTx{Base: tx.Base}
	fields := [][]byte{
		sb.MarshalCanoto(),
		append([]byte{0x12, 2}, tx.Actions[0].Bytes()...),
		append([]byte{0x12, 2}, tx.Actions[1].Bytes()...),
		append([]byte{0x1a, 2}, tx.Auth.Bytes()...),
	}
	k := verifChoose("nfields", verifParam("txMaxFields", 4, 5)+1)
	var buf []byte
	for i := 0; i < k; i++ {
		buf = append(buf, fields[verifChoose("field", len(fields))]...)
	}
	in := c15Copy(buf)
	got, err := UnmarshalTx(buf, c15Parser())
	if err != nil {
		verifReach("rejected")
		verifReach("end")
		return
	}
	verifReach("accepted")
	if k == 4 {
		verifReach("accepted-all-fields")
	}
	c15CheckTx(got, in, "tx-fields")
	verifReach("end")
}

func c15SameTx(a, b *Transaction, label string) {
	c15SameBase(&a.Base, &b.Base, label+"-base")
	if len(a.Actions) != len(b.Actions) {
		verifFail(label + "-actions")
	}
	for i := range a.Actions {
		if a.Actions[i].(c15Action) != b.Actions[i].(c15Action) {
			verifFail(label + "-action")
		}
	}
	if a.Auth.(c15Auth) != b.Auth.(c15Auth) {
		verifFail(label + "-auth")
	}
	c15Same(a.Bytes(), b.Bytes(), label+"-bytes")
	c15Same(a.UnsignedBytes(), b.UnsignedBytes(), label+"-unsigned")
	c15SameID(a.GetID(), b.GetID(), label+"-id")
}

// VerifC15TxRoundTrip: UnmarshalTx(NewTransaction(base, actions, auth).Bytes()) gives the same transaction, and the
// bytes signed through TransactionData.Sign are the unsigned bytes of the parsed transaction.
func VerifC15TxRoundTrip() {
	// the base is empty or full-size (every base round-trips by base-roundtrip)
	var b Base
	if verifChoose("base", 2) == 1 {
		b = c15Base()
	}
	n := verifChoose("actions", verifParam("txMaxActions", 2, 3)+1)
	actions := make([]Action, n)
	for i := range actions {
		actions[i] = c15Action{verifU8("atype") & 1, verifU8("apayload")}
	}
	auth := c15Auth{c15AuthType, verifU8("authpayload")}
	tx, err := NewTransaction(b, actions, auth)
	if err != nil {
		verifFail("new-transaction")
	}
	enc := tx.Bytes()
	back, err := UnmarshalTx(c15Copy(enc), c15Parser())
	if err != nil {
		verifFail("tx-roundtrip-rejected")
	}
	c15SameTx(tx, back, "tx-roundtrip")
	c15CheckTx(back, enc, "tx-roundtrip")
	// the write path used by wallets signs the same message
	raw := make([][]byte, n)
	for i := range raw {
		raw[i] = actions[i].Bytes()
	}
	signed, err := SignRawActionBytesTx(b, raw, c15Factory{auth, back.UnsignedBytes()})
	if err != nil {
		verifFail("tx-roundtrip-sign-raw")
	}
	c15Same(signed, enc, "tx-roundtrip-sign-raw")
	verifReach("end")
}

// c15Factory "signs" by returning a fixed auth, after checking that the message it is asked to sign is `want`.
type c15Factory struct {
	auth c15Auth
	want []byte
}

func (f c15Factory) Sign(msg []byte) (Auth, error) {
	c15Same(msg, f.want, "signed-message-differs-from-unsigned-bytes")
	return f.auth, nil
}
func (c15Factory) MaxUnits() (uint64, uint64) { return 2, 1 }
func (f c15Factory) Address() codec.Address   { return f.auth.Actor() }

// ---------------------------------------------------------------------------------------------------------------------
// Block / BatchedTransactions

func c15CheckBlock(blk *StatelessBlock, in []byte, label string) {
	c15Same(blk.GetBytes(), in, label+"-cached-bytes")
	c15SameID(blk.GetID(), utils.ToID(in), label+"-id-not-hash-of-bytes")
	re, err := NewStatelessBlock(blk.Prnt, blk.Tmstmp, blk.Hght, blk.Txs, blk.StateRoot, blk.BlockContext)
	if err != nil {
		verifFail(label + "-reconstruct")
	}
	c15Same(re.GetBytes(), in, label+"-reencode")
	// every contained transaction is itself canonical and covers exactly its own bytes
	total := 0
	for _, tx := range blk.Txs {
		c15CheckTx(tx, c15Copy(tx.Bytes()), label+"-tx")
		total += tx.Size()
	}
	if total > len(in) {
		verifFail(label + "-tx-sizes")
	}
}

// VerifC15BlockBytes: UnmarshalBlock on an arbitrary buffer.
func VerifC15BlockBytes() {
	l := verifChoose("len", verifParam("blockMaxLen", 7, 8)+1)
	buf := verifBytes("b", l)
	in := c15Copy(buf)
	blk, err := UnmarshalBlock(buf, c15Parser())
	if err != nil {
		verifReach("rejected")
		verifReach("end")
		return
	}
	verifReach("accepted")
	if len(blk.Txs) > 0 {
		verifReach("accepted-with-tx")
	}
	c15CheckBlock(blk, in, "block")
	verifReach("end")
}

// c15SmallTx: a transaction without base: one action + auth (8 bytes).
func c15SmallTx() *Transaction {
	tx, err := NewTransaction(Base{}, []Action{c15Action{verifU8("atype") & 1, verifU8("apayload")}}, c15Auth{c15AuthType, verifU8("authpayload")})
	if err != nil {
		verifFail("new-transaction")
	}
	return tx
}

// c15Block: a block with every field present (fixed values) and ntx small transactions with symbolic payloads.
func c15Block(ntx int) *StatelessBlock {
	var parent, root ids.ID
	for i := range parent {
		parent[i] = byte(0x50 + i)
		root[i] = byte(0x90 + i)
	}
	txs := make([]*Transaction, ntx)
	for i := range txs {
		txs[i] = c15SmallTx()
	}
	blk, err := NewStatelessBlock(parent, 1_700_000_000_123, 77, txs, root, &block.Context{PChainHeight: 99})
	if err != nil {
		verifFail("new-block")
	}
	return blk
}

// VerifC15BlockMutated: a full block encoding (two transactions) with a cut/insert mutation at any position.
func VerifC15BlockMutated() {
	enc := c15Block(2).GetBytes()
	buf := c15Mutate(enc, verifParam("blockMutCut", 1, 1), verifParam("blockMutIns", 1, 1))
	in := c15Copy(buf)
	blk, err := UnmarshalBlock(buf, c15Parser())
	if err != nil {
		verifReach("rejected")
		verifReach("end")
		return
	}
	verifReach("accepted")
	c15CheckBlock(blk, in, "block-mutated")
	verifReach("end")
}

// VerifC15BlockRoundTrip: UnmarshalBlock(NewStatelessBlock(...).GetBytes()) gives the same block.
func VerifC15BlockRoundTrip() {
	// header fields: all zero (absent on the wire) or all present with arbitrary values (IDs: arbitrary first and last
	// byte, which includes the all-but-one-byte-zero cases); mixed presence is covered by block-bytes / block-mutated
	var parent, root ids.ID
	var ts int64
	var h uint64
	var bctx *block.Context
	if verifChoose("headerPresent", 2) == 1 {
		for i := range parent {
			parent[i], root[i] = byte(0x50+i), byte(0x90+i)
		}
		parent[0], parent[31], root[0], root[31] = verifU8("parent"), verifU8("parent"), verifU8("root"), verifU8("root")
		ts, h = verifI64("blockts"), verifU64("height")
		// a context with height 0 is the empty message: canoto encodes it as absent (decoded as nil)
		bctx = &block.Context{PChainHeight: verifU64("pchain")}
		verifAssume(bctx.PChainHeight != 0)
		if bits := verifParam("blockPChainBits", 14, 64); bits < 64 {
			verifAssume(bctx.PChainHeight>>uint(bits) == 0)
		}
	}
	n := verifChoose("txs", verifParam("blockMaxTxs", 1, 2)+1)
	txs := make([]*Transaction, n)
	for i := range txs {
		txs[i] = c15SmallTx()
	}
	blk, err := NewStatelessBlock(parent, ts, h, txs, root, bctx)
	if err != nil {
		verifFail("new-block")
	}
	enc := blk.GetBytes()
	back, err := UnmarshalBlock(c15Copy(enc), c15Parser())
	if err != nil {
		verifFail("block-roundtrip-rejected")
	}
	c15SameID(parent, back.Prnt, "block-roundtrip-parent")
	c15SameID(root, back.StateRoot, "block-roundtrip-root")
	if back.Tmstmp != ts {
		verifFail("block-roundtrip-timestamp")
	}
	if back.Hght != h {
		verifFail("block-roundtrip-height")
	}
	if (back.BlockContext == nil) != (bctx == nil) {
		verifFail("block-roundtrip-context")
	}
	if bctx != nil {
		if back.BlockContext.PChainHeight != bctx.PChainHeight {
			verifFail("block-roundtrip-context")
		}
	}
	if len(back.Txs) != n {
		verifFail("block-roundtrip-txs")
	}
	for i := range txs {
		c15SameTx(txs[i], back.Txs[i], "block-roundtrip-tx")
	}
	c15SameID(blk.GetID(), back.GetID(), "block-roundtrip-id")
	c15CheckBlock(back, enc, "block-roundtrip")
	verifReach("end")
}

// VerifC15BatchBytes: BatchedTransactionSerializer.Unmarshal on an arbitrary buffer.
func VerifC15BatchBytes() {
	l := verifChoose("len", verifParam("batchMaxLen", 7, 8)+1)
	buf := verifBytes("b", l)
	in := c15Copy(buf)
	s := &BatchedTransactionSerializer{Parser: c15Parser()}
	txs, err := s.Unmarshal(buf)
	if err != nil {
		verifReach("rejected")
		verifReach("end")
		return
	}
	verifReach("accepted")
	c15Same(s.Marshal(txs), in, "batch-reencode")
	for _, tx := range txs {
		verifReach("accepted-with-tx")
		c15CheckTx(tx, c15Copy(tx.Bytes()), "batch-tx")
	}
	verifReach("end")
}

// VerifC15BatchMutated: a batch of two transactions (thorough: the first full-size) round-trips; then mutated at any
// position.
func VerifC15BatchMutated() {
	s := &BatchedTransactionSerializer{Parser: c15Parser()}
	orig := []*Transaction{c15SmallTx(), c15SmallTx()}
	if verifParam("batchFullSizeTx", 0, 1) == 1 {
		orig[0] = c15Tx(1)
	}
	enc := s.Marshal(orig)
	back, err := s.Unmarshal(c15Copy(enc))
	if err != nil {
		verifFail("batch-roundtrip-rejected")
	}
	if len(back) != 2 {
		verifFail("batch-roundtrip-count")
	}
	for i := range back {
		c15SameTx(orig[i], back[i], "batch-roundtrip-tx")
	}
	buf := c15Mutate(enc, verifParam("batchMutCut", 1, 1), verifParam("batchMutIns", 1, 1))
	in := c15Copy(buf)
	txs, err := s.Unmarshal(buf)
	if err != nil {
		verifReach("rejected")
		verifReach("end")
		return
	}
	verifReach("accepted")
	c15Same(s.Marshal(txs), in, "batch-mutated-reencode")
	for _, tx := range txs {
		c15CheckTx(tx, c15Copy(tx.Bytes()), "batch-mutated-tx")
	}
	verifReach("end")
}
