package chain

// Shared harness collaborators for the checks that live in package chain (C01 C02 C03 C07 C10 C11 C12 C14 ...).
// They are deliberately tiny and fully concrete except for the fields a harness makes symbolic.

import (
	"context"
	"encoding/binary"
	"errors"

	"github.com/ava-labs/avalanchego/database"
	"github.com/ava-labs/avalanchego/ids"

	"github.com/ava-labs/hypersdk/codec"
	"github.com/ava-labs/hypersdk/fees"
	"github.com/ava-labs/hypersdk/state"
)

var hErrInsufficient = errors.New("harness: insufficient balance")
var hErrAction = errors.New("harness: action failed")

// hRules: every field can be made symbolic by a harness.
type hRules struct {
	chainID     ids.ID
	window      int64
	maxActions  uint8
	minGap      int64
	minEmptyGap int64
	base        uint64
	keyRead     uint64
	valRead     uint64
	keyAlloc    uint64
	valAlloc    uint64
	keyWrite    uint64
	valWrite    uint64
	sponsorMax  []uint16
	maxBlock    fees.Dimensions
	minPrice    fees.Dimensions
	target      fees.Dimensions
	denom       fees.Dimensions
}

func hDefaultRules() *hRules {
	return &hRules{
		window: 60000, maxActions: 4, base: 1, keyRead: 1, valRead: 1, keyAlloc: 1, valAlloc: 1, keyWrite: 1, valWrite: 1,
		sponsorMax: []uint16{1},
		maxBlock:   fees.Dimensions{100000, 100000, 100000, 100000, 100000},
		minPrice:   fees.Dimensions{1, 1, 1, 1, 1},
		target:     fees.Dimensions{1000, 1000, 1000, 1000, 1000},
		denom:      fees.Dimensions{48, 48, 48, 48, 48},
	}
}

func (r *hRules) GetNetworkID() uint32                           { return 1 }
func (r *hRules) GetChainID() ids.ID                             { return r.chainID }
func (r *hRules) GetMinBlockGap() int64                          { return r.minGap }
func (r *hRules) GetMinEmptyBlockGap() int64                     { return r.minEmptyGap }
func (r *hRules) GetValidityWindow() int64                       { return r.window }
func (r *hRules) GetMaxActionsPerTx() uint8                      { return r.maxActions }
func (r *hRules) GetMinUnitPrice() fees.Dimensions               { return r.minPrice }
func (r *hRules) GetUnitPriceChangeDenominator() fees.Dimensions { return r.denom }
func (r *hRules) GetWindowTargetUnits() fees.Dimensions          { return r.target }
func (r *hRules) GetMaxBlockUnits() fees.Dimensions              { return r.maxBlock }
func (r *hRules) GetBaseComputeUnits() uint64                    { return r.base }
func (r *hRules) GetSponsorStateKeysMaxChunks() []uint16         { return r.sponsorMax }
func (r *hRules) GetStorageKeyReadUnits() uint64                 { return r.keyRead }
func (r *hRules) GetStorageValueReadUnits() uint64               { return r.valRead }
func (r *hRules) GetStorageKeyAllocateUnits() uint64             { return r.keyAlloc }
func (r *hRules) GetStorageValueAllocateUnits() uint64           { return r.valAlloc }
func (r *hRules) GetStorageKeyWriteUnits() uint64                { return r.keyWrite }
func (r *hRules) GetStorageValueWriteUnits() uint64              { return r.valWrite }
func (r *hRules) FetchCustom(string) (any, bool)                 { return nil, false }

// hBalKey is the sponsor balance key: prefix 8, address, 1 chunk.
func hBalKey(a codec.Address) []byte { return append([]byte{8}, append(a[:], 0, 1)...) }

// hBH is a balance handler of the usual shape (8-byte big-endian balances, absent = 0).
type hBH struct{}

func (hBH) SponsorStateKeys(a codec.Address) state.Keys {
	return state.Keys{string(hBalKey(a)): state.Read | state.Write}
}

func (hBH) GetBalance(ctx context.Context, a codec.Address, im state.Immutable) (uint64, error) {
	v, err := im.GetValue(ctx, hBalKey(a))
	if errors.Is(err, database.ErrNotFound) {
		return 0, nil
	}
	if err != nil {
		return 0, err
	}
	return binary.BigEndian.Uint64(v), nil
}

func (h hBH) CanDeduct(ctx context.Context, a codec.Address, im state.Immutable, amount uint64) error {
	b, err := h.GetBalance(ctx, a, im)
	if err != nil {
		return err
	}
	if b < amount {
		return hErrInsufficient
	}
	return nil
}

func (h hBH) Deduct(ctx context.Context, a codec.Address, mu state.Mutable, amount uint64) error {
	b, err := h.GetBalance(ctx, a, mu)
	if err != nil {
		return err
	}
	if b < amount {
		return hErrInsufficient
	}
	return mu.Insert(ctx, hBalKey(a), binary.BigEndian.AppendUint64(nil, b-amount))
}

func (h hBH) AddBalance(ctx context.Context, a codec.Address, mu state.Mutable, amount uint64) error {
	b, _ := h.GetBalance(ctx, a, mu)
	return mu.Insert(ctx, hBalKey(a), binary.BigEndian.AppendUint64(nil, b+amount))
}

// hAuth: auth with a fixed actor/sponsor and a configurable activation range.
type hAuth struct {
	addr       codec.Address
	start, end int64
	units      uint64
}

func (hAuth) GetTypeID() uint8                       { return 0 }
func (a hAuth) ValidRange(Rules) (int64, int64)      { return a.start, a.end }
func (hAuth) Bytes() []byte                          { return []byte{0} }
func (a hAuth) ComputeUnits(Rules) uint64            { return a.units }
func (hAuth) Verify(context.Context, []byte) error   { return nil }
func (a hAuth) Actor() codec.Address                 { return a.addr }
func (a hAuth) Sponsor() codec.Address               { return a.addr }

func hNewAuth(addr codec.Address) hAuth { return hAuth{addr: addr, start: -1, end: -1, units: 1} }

// hIm is a map-backed immutable parent state.
type hIm struct{ m map[string][]byte }

func (h hIm) GetValue(_ context.Context, k []byte) ([]byte, error) {
	v, ok := h.m[string(k)]
	if !ok {
		return nil, database.ErrNotFound
	}
	return v, nil
}

type hMeta struct{}

func (hMeta) HeightPrefix() []byte    { return []byte{0} }
func (hMeta) TimestampPrefix() []byte { return []byte{1} }
func (hMeta) FeePrefix() []byte       { return []byte{2} }
