package chain

import (
	"context"

	"github.com/StephenButtolph/canoto"
	"github.com/ava-labs/avalanchego/ids"

	"github.com/ava-labs/hypersdk/codec"
	"github.com/ava-labs/hypersdk/fees"
	"github.com/ava-labs/hypersdk/state"
)

// c14Action: an action whose encoding is an abstract-content byte string (only its length matters) and which declares
// a fixed key set.
type c14Action struct {
	bytes []byte
	keys  state.Keys
	units uint64
}

func (c14Action) ValidRange(Rules) (int64, int64)              { return -1, -1 }
func (a c14Action) Bytes() []byte                              { return a.bytes }
func (c14Action) GetTypeID() uint8                             { return 1 }
func (a c14Action) ComputeUnits(Rules) uint64                  { return a.units }
func (a c14Action) StateKeys(codec.Address, ids.ID) state.Keys { return a.keys }
func (c14Action) Execute(context.Context, Rules, state.Mutable, int64, codec.Address, ids.ID) ([]byte, error) {
	return nil, nil
}

// c14Auth / c14Factory: an auth whose credential is an abstract-content byte string; the factory honours the
// documented AuthFactory contract: MaxUnits() = (len(auth.Bytes()), auth.ComputeUnits), Address() = actor = sponsor.
type c14Auth struct {
	hAuth
	bytes []byte
}

func (a c14Auth) Bytes() []byte { return a.bytes }

type c14Factory struct{ auth c14Auth }

func (f c14Factory) Sign([]byte) (Auth, error)  { return f.auth, nil }
func (f c14Factory) MaxUnits() (uint64, uint64) { return uint64(len(f.auth.bytes)), f.auth.units }
func (f c14Factory) Address() codec.Address     { return f.auth.addr }

// Engine-side models of the two constructors that marshal the transaction (abstract-content slices cannot be copied
// into a buffer): same parameter lists as the real NewTxData / NewTransaction. They compute the encoded size with the
// generated canoto size code (SerializeTx.CalculateCanotoCache), which is what len(MarshalCanoto()) is by canoto's
// contract. The native replay runs the real constructors (real marshalling of zero-filled payloads).
func c14NewTxData(base Base, actions []Action) TransactionData {
	txData := TransactionData{Base: base, Actions: actions}
	txData.Base.CalculateCanotoCache()
	return txData
}

func c14NewTransaction(base Base, actions []Action, auth Auth) (*Transaction, error) {
	txData := c14NewTxData(base, actions)
	actionBytes := make([]codec.Bytes, len(actions))
	for i, action := range actions {
		actionBytes[i] = action.Bytes()
	}
	s := &SerializeTx{Base: base, Actions: actionBytes, Auth: auth.Bytes()}
	s.CalculateCanotoCache()
	return &Transaction{TransactionData: txData, Auth: auth, size: int(s.CachedCanotoSize()), id: ids.ID{1}}, nil
}

// c14SizeUint: engine-side model of canoto.SizeUint[uint64] (the length of a varint: one byte per started group of 7
// bits) as a sum of threshold flags -- no branches, so a transaction with 16 actions is still one path. Its equivalence
// with the real function for all 64-bit values is the lemma VerifC14SizeModel.
func c14SizeUint(v uint64) uint64 {
	n := uint64(1)
	for j := uint(1); j <= 9; j++ {
		n += verifGe(v, uint64(1)<<(7*j))
	}
	return n
}

// VerifC14SizeModel: c14SizeUint(v) == canoto.SizeUint(v) for every uint64 v (the real function is executed here).
func VerifC14SizeModel() {
	v := verifU64("v")
	if canoto.SizeUint(v) != c14SizeUint(v) {
		verifFail("size-model-differs-from-canoto-sizeuint")
	}
	verifReach("end")
}

// VerifC14Estimate: the two halves of GenerateTransaction -- the real EstimateUnits and the real
// GenerateTransactionManual (NewTxData -> Sign -> NewTransaction) -- for n = 1..maxActions actions with symbolic encoded
// lengths, the first two with a symbolic declared key and symbolic compute units, a symbolic-length auth credential,
// symbolic timestamp, any MaxFee and chain ID zero/non-zero.
// Oracle: in every dimension the estimate is at least the units of the generated transaction. (GenerateTransaction
// signs MaxFee = Σ price·estimate; with estimate >= units componentwise that covers the fee Σ price·units at the same
// prices.)
func VerifC14Estimate() {
	maxN := verifParam("maxActions", 16, 16)
	maxLen := verifParam("maxActionBytes", 1<<16, 1<<20)
	r := hDefaultRules()
	r.window = 60000
	// a non-zero chain ID (34 more encoded bytes: the tight case); the thorough tier also runs the zero chain ID
	r.chainID = ids.ID{1}
	if verifChoose("chainID", verifParam("chainIDKinds", 1, 2)) == 1 {
		r.chainID = ids.Empty
	}
	addr := codec.Address{1}
	n := 1 + verifChoose("actions", maxN)
	actions := make([]Action, n)
	for i := 0; i < n; i++ {
		b := verifBlob("actionBytes", maxLen)
		verifAssume(len(b) >= 1) // an action's encoding starts with its type id
		a := c14Action{bytes: b, keys: state.Keys{}, units: 1}
		if i < 2 {
			a.keys[c12key(0, verifU16("chunks"))] = state.All
			a.units = verifU64("actionUnits")
			verifAssume(a.units < 1<<32)
		}
		actions[i] = a
	}
	auth := c14Auth{hAuth: hNewAuth(addr), bytes: verifBlob("authBytes", 256)}
	verifAssume(len(auth.bytes) >= 1)
	auth.units = verifU64("authUnits")
	verifAssume(auth.units < 1<<32)
	factory := c14Factory{auth}
	now := verifI64("timestamp")
	verifAssume(now >= 0)
	verifAssume(now < 1<<62)
	// what GenerateTransaction does, minus its MulSum(unitPrices, estimate): the MaxFee it would sign is any value here
	// (its only influence on the units is through the encoded size)
	est, err := EstimateUnits(r, actions, factory)
	if err != nil {
		verifReach("not-generated")
		verifReach("end")
		return
	}
	tx, err := GenerateTransactionManual(r, now, actions, factory, verifU64("maxFee"))
	if err != nil {
		verifFail("signing-failed")
	}
	units, err := tx.Units(hBH{}, r)
	if err != nil {
		verifFail("generated-transaction-unmeterable")
	}
	if est[fees.Bandwidth] < units[fees.Bandwidth] {
		verifFail("estimate-below-actual-bandwidth")
	}
	if est[fees.Compute] < units[fees.Compute] {
		verifFail("estimate-below-actual-compute")
	}
	if est[fees.StorageRead] < units[fees.StorageRead] {
		verifFail("estimate-below-actual-storage-read")
	}
	if est[fees.StorageAllocate] < units[fees.StorageAllocate] {
		verifFail("estimate-below-actual-storage-allocate")
	}
	if est[fees.StorageWrite] < units[fees.StorageWrite] {
		verifFail("estimate-below-actual-storage-write")
	}
	verifReach("generated")
	verifReach("end")
}
