package chain

import (
	"context"
	"encoding/binary"

	"github.com/ava-labs/avalanchego/ids"
	"github.com/ava-labs/avalanchego/trace"
	"github.com/prometheus/client_golang/prometheus"

	"github.com/ava-labs/hypersdk/codec"
	"github.com/ava-labs/hypersdk/fees"
	"github.com/ava-labs/hypersdk/state"

	internalfees "github.com/ava-labs/hypersdk/internal/fees"
)

const c01MaxTxs = 3
const c01MaxOps = 2

var c01DataKey = []byte{9, 0, 1} // the contended data key (1 chunk)

// c01Action declares the data key with a permission and runs a script of get/insert/remove operations on it, then
// succeeds or fails. What it reads is recorded for the oracle.
type c01Action struct {
	perm  state.Permissions
	nops  int
	ops   [c01MaxOps]int // 0 get, 1 insert val, 2 remove, 3 insert the value the parent state holds (7)
	val   byte
	fail  bool
	reads *[c01MaxOps]int // per op: -2 not a read / not reached, -1 read absent, else the byte read
}

func (c01Action) ValidRange(Rules) (int64, int64) { return -1, -1 }
func (c01Action) Bytes() []byte                   { return []byte{1} }
func (c01Action) GetTypeID() uint8                { return 1 }
func (c01Action) ComputeUnits(Rules) uint64       { return 1 }
func (a c01Action) StateKeys(codec.Address, ids.ID) state.Keys {
	return state.Keys{string(c01DataKey): a.perm}
}

func (a c01Action) Execute(ctx context.Context, _ Rules, mu state.Mutable, _ int64, _ codec.Address, _ ids.ID) ([]byte, error) {
	for j := 0; j < a.nops; j++ {
		switch a.ops[j] {
		case 0:
			v, err := mu.GetValue(ctx, c01DataKey)
			if err == nil {
				a.reads[j] = int(v[0])
			} else {
				a.reads[j] = -1
			}
		case 1:
			if err := mu.Insert(ctx, c01DataKey, []byte{a.val + byte(j)}); err != nil {
				return nil, err
			}
		case 2:
			if err := mu.Remove(ctx, c01DataKey); err != nil {
				return nil, err
			}
		case 3:
			if err := mu.Insert(ctx, c01DataKey, []byte{7}); err != nil {
				return nil, err
			}
		}
	}
	if a.fail {
		return nil, hErrAction
	}
	return []byte{a.val}, nil
}

// VerifC01: the real Processor.executeTxs (fetcher workers, executor workers, per-transaction tstate views,
// Transaction.PreExecute/Execute, fee manager) on a block of 2 (thorough 3) transactions contending for one data key and
// for sponsor balances, compared with applying the transactions one at a time in block order.
func VerifC01() { c01run(false) }

// VerifC01Preempt: the same check on the conflict-heavy configurations only (first transaction writes the contended
// key, two execution cores), explored with a higher preemption bound.
func VerifC01Preempt() { c01run(true) }

// VerifC01Three: three transactions in the shape writer(D) by sponsor 0; reader(D) by sponsor 0 (so it also writes the
// balance key owned by the same earlier transaction); writer/remover(D) by sponsor 1 — the third must wait for the
// second although the second only reads D. Two cores, preemption bound 1.
func VerifC01Three() { c01three = true; defer func() { c01three = false }(); c01run(true) }

var c01three bool

func c01run(focused bool) {
	ctx := context.Background()
	narrow := false // quick tier of the focused harness: tx0 inserts, tx1 only reads, distinct sponsors, one fetch worker
	if focused {
		narrow = verifParam("narrow", 1, 0) == 1
	}
	nTxs := verifParam("txs", 2, 2)
	if c01three {
		nTxs = 3
	}
	maxOps := verifParam("opsPerAction", 1, 1)
	parent := hIm{map[string][]byte{}}
	refHas, refVal := false, byte(0)
	if focused || verifChoose("parentHasKey", 2) == 1 {
		parent.m[string(c01DataKey)] = []byte{7}
		refHas, refVal = true, 7
	}
	var bal [2]uint64
	addrs := [2]codec.Address{{1}, {2}}
	for s := 0; s < 2; s++ {
		bal[s] = 1_000_000
		parent.m[string(hBalKey(addrs[s]))] = binary.BigEndian.AppendUint64(nil, bal[s])
	}
	var txs []*Transaction
	var acts [c01MaxTxs]c01Action
	var reads [c01MaxTxs][c01MaxOps]int
	var sponsor [c01MaxTxs]int
	for i := 0; i < nTxs; i++ {
		if c01three {
			sponsor[i] = i / 2 // 0, 0, 1
		} else if i > 0 && narrow {
			sponsor[i] = 1
		} else if i > 0 {
			sponsor[i] = verifChoose("sponsor", 2) // same sponsor as tx 0 (conflict on the balance key) or another one
		}
		a := c01Action{val: byte(10 * (i + 1)), reads: &reads[i]}
		for j := 0; j < c01MaxOps; j++ {
			reads[i][j] = -2
		}
		if c01three && i == 1 {
			a.perm = state.Read
			a.nops = 1
			a.ops[0] = 0
		} else if c01three && i == 2 {
			a.perm = state.All
			a.nops = 1
			a.ops[0] = 1 + verifChoose("op", 2)
		} else if focused && i == 0 {
			a.perm = state.All
			a.nops = 1
			a.ops[0] = 1
			if !narrow {
				a.ops[0] = 1 + verifChoose("op", 2)
			}
		} else if narrow {
			a.nops = 1
			a.ops[0] = 0
			a.perm = state.Read
			if verifChoose("perm", 2) == 1 {
				a.perm = state.All
			}
		} else if verifChoose("perm", 2) == 0 {
			a.perm = state.Read
			a.nops = 1
			a.ops[0] = 0
		} else {
			a.perm = state.All
			a.nops = 1 + verifChoose("nops", maxOps)
			for j := 0; j < a.nops; j++ {
				a.ops[j] = verifChoose("op", 4)
			}
		}
		if !narrow {
			a.fail = verifChoose("fail", 2) == 1
		}
		acts[i] = a
		txs = append(txs, &Transaction{
			TransactionData: TransactionData{Base: Base{Timestamp: 2000, ChainID: ids.Empty, MaxFee: 1 << 40}, Actions: []Action{a}},
			Auth:            hNewAuth(addrs[sponsor[i]]),
			size:            50,
			id:              ids.ID{byte(1 + i)},
		})
	}
	cores := 2
	if !focused {
		cores = 1 + verifChoose("cores", 2)
	}
	fetchers := 1
	if !narrow {
		fetchers = 1 + verifChoose("fetchConcurrency", 2)
	}
	metrics, err := NewMetrics(prometheus.NewRegistry())
	if err != nil {
		verifFail("metrics-error")
	}
	p := &Processor{
		tracer:          trace.Noop,
		balanceHandler:  hBH{},
		metadataManager: hMeta{},
		metrics:         metrics,
		config:          Config{TransactionExecutionCores: cores, StateFetchConcurrency: fetchers},
	}
	rules := hDefaultRules()
	blk := &ExecutionBlock{StatelessBlock: &StatelessBlock{Block: Block{Tmstmp: 1500, Hght: 1, Txs: txs}}}
	fm := internalfees.NewManager(nil)
	for d := fees.Dimension(0); d < fees.FeeDimensions; d++ {
		fm.SetUnitPrice(d, 1)
	}
	results, ts, err := p.executeTxs(ctx, blk, parent, fm, rules)
	if err != nil {
		verifFail("execute-error")
	}

	// ---- sequential reference: transactions one at a time in block order ----
	var total fees.Dimensions
	for i := 0; i < nTxs; i++ {
		a := acts[i]
		units, uerr := txs[i].Units(hBH{}, rules)
		if uerr != nil {
			verifFail("units-error")
		}
		fee := uint64(0)
		for d := 0; d < fees.FeeDimensions; d++ {
			fee += units[d] // unit price 1 in every dimension
			total[d] += units[d]
		}
		bal[sponsor[i]] -= fee
		curHas, curVal := refHas, refVal
		for j := 0; j < a.nops; j++ {
			switch a.ops[j] {
			case 0:
				want := -1
				if curHas {
					want = int(curVal)
				}
				if reads[i][j] != want {
					if reads[i][j] == -2 {
						verifFail("action-operation-not-executed")
					}
					if want == -1 {
						verifFail("read-sees-value-sequential-execution-would-not")
					}
					if reads[i][j] == -1 {
						verifFail("read-misses-value-of-earlier-transaction")
					}
					verifFail("read-sees-wrong-value")
				}
			case 1:
				curHas, curVal = true, a.val+byte(j)
			case 2:
				curHas = false
			case 3:
				curHas, curVal = true, 7
			}
		}
		r := results[i]
		if r == nil {
			verifFail("missing-result")
		}
		if r.Success == a.fail {
			verifFail("result-success-flag")
		}
		if r.Fee != fee {
			verifFail("result-fee")
		}
		for d := 0; d < fees.FeeDimensions; d++ {
			if r.Units[d] != units[d] {
				verifFail("result-units")
			}
		}
		if !a.fail {
			refHas, refVal = curHas, curVal
			if len(r.Outputs) != 1 {
				verifFail("result-outputs")
			}
		}
	}
	consumed := fm.UnitsConsumed()
	for d := 0; d < fees.FeeDimensions; d++ {
		if consumed[d] != total[d] {
			verifFail("units-consumed")
		}
		if fm.UnitPrice(fees.Dimension(d)) != 1 {
			verifFail("unit-price-changed")
		}
	}
	// post-state = parent overlaid with the changed keys
	ck := ts.ChangedKeys()
	final := func(k []byte) (bool, []byte) {
		if e, ok := ck[string(k)]; ok {
			if e.HasValue() {
				return true, e.Value()
			}
			return false, nil
		}
		v, ok := parent.m[string(k)]
		return ok, v
	}
	has, v := final(c01DataKey)
	if has != refHas {
		if has {
			verifFail("post-state-has-key-sequential-execution-deleted")
		}
		verifFail("post-state-misses-key")
	}
	if has {
		if v[0] != refVal {
			verifFail("post-state-wrong-value")
		}
	}
	for s := 0; s < 2; s++ {
		bh, bv := final(hBalKey(addrs[s]))
		if !bh {
			verifFail("post-state-balance-missing")
		}
		if binary.BigEndian.Uint64(bv) != bal[s] {
			verifFail("post-state-balance")
		}
	}
	for k := range ck {
		if k != string(c01DataKey) {
			if k != string(hBalKey(addrs[0])) {
				if k != string(hBalKey(addrs[1])) {
					verifFail("post-state-unexpected-key")
				}
			}
		}
	}
	verifReach("end")
}
