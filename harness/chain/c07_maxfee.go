package chain

import (
	"context"
	"encoding/binary"
	"time"

	"github.com/ava-labs/avalanchego/ids"
	"github.com/ava-labs/avalanchego/trace"
	"github.com/ava-labs/avalanchego/utils/logging"

	"github.com/ava-labs/hypersdk/codec"
	"github.com/ava-labs/hypersdk/consts"
	"github.com/ava-labs/hypersdk/fees"
	"github.com/ava-labs/hypersdk/state"

	internalfees "github.com/ava-labs/hypersdk/internal/fees"
)

// The three places where a transaction's fee meets its signed Base.MaxFee: admission (PreExecutor.PreExecute, behind
// VM.Submit), block verification (Processor.executeTxs) and block building (Builder.BuildBlock). Each harness checks
// first that the fee is exactly Σ price·units and that the sponsor loses exactly the fee (so any other way of
// over-charging has its own label), and then that the fee does not exceed MaxFee.

func c07Rules() *hRules {
	r := hDefaultRules()
	r.window = c12Window
	for d := 0; d < fees.FeeDimensions; d++ {
		r.maxBlock[d] = consts.MaxUint64
	}
	return r
}

// VerifC07Admission: PreExecutor.PreExecute with symbolic next-block unit prices (the parent's prices are 0 and decay to
// the symbolic minimum prices of the rules, in the engine's frozen clock as well as in real time), symbolic size,
// compute units, balance and MaxFee.
func VerifC07Admission() {
	ctx := context.Background()
	addr := codec.Address{1}
	r := c07Rules()
	for d := 0; d < fees.FeeDimensions; d++ {
		r.minPrice[d] = verifU64("price")
	}
	now := time.Now().UnixMilli()
	maxFee, bal := verifU64("maxFee"), verifU64("balance")
	size := verifInt("size")
	verifAssume(size >= 0)
	u := verifU64("actionUnits")
	var saw uint64
	var ran bool
	tx := c03Tx([]Action{c03FeeAction{units: u, saw: &saw, ran: &ran}}, addr, size, maxFee)
	tx.Base.Timestamp = c12Expiry
	im := hIm{map[string][]byte{
		string(FeeKey(hMeta{}.FeePrefix())): internalfees.NewManager(nil).Bytes(),
		string(hBalKey(addr)):               binary.BigEndian.AppendUint64(nil, bal),
	}}
	parentBlk := &ExecutionBlock{StatelessBlock: &StatelessBlock{Block: Block{Tmstmp: now - 5000}}}
	pe := NewPreExecutor(c12RF{r}, c12VW{}, hMeta{}, hBH{})
	if err := pe.PreExecute(ctx, parentBlk, im, tx); err != nil {
		verifReach("rejected")
		verifReach("end")
		return
	}
	units, err := tx.Units(hBH{}, r)
	if err != nil {
		verifFail("admission-accepts-unmeterable-transaction")
	}
	bill := c03Bill(r.minPrice, units)
	if !bill.IsUint64() {
		verifFail("admission-accepts-fee-beyond-64-bits")
	}
	if bill.Uint64() > bal {
		verifFail("admission-accepts-unpayable-transaction")
	}
	if bill.Uint64() > maxFee {
		verifFail("admission-accepts-fee-above-max-fee")
	}
	verifReach("admitted")
	verifReach("end")
}

// VerifC07Verify: the verifier (real Processor.executeTxs) on a block with one transaction, symbolic block unit prices,
// size, compute units, balance and MaxFee.
func VerifC07Verify() {
	ctx := context.Background()
	addr := codec.Address{1}
	r := c07Rules()
	fm := internalfees.NewManager(nil)
	var prices fees.Dimensions
	for d := 0; d < fees.FeeDimensions; d++ {
		prices[d] = verifU64("price")
		fm.SetUnitPrice(fees.Dimension(d), prices[d])
	}
	maxFee, bal := verifU64("maxFee"), verifU64("balance")
	size := verifInt("size")
	verifAssume(size >= 0)
	u := verifU64("actionUnits")
	fail := verifChoose("fail", 2) == 1
	var saw uint64
	var ran bool
	tx := c03Tx([]Action{c03FeeAction{units: u, fail: fail, saw: &saw, ran: &ran}}, addr, size, maxFee)
	parent := hIm{map[string][]byte{string(hBalKey(addr)): binary.BigEndian.AppendUint64(nil, bal)}}
	p := c12Processor()
	blk := &ExecutionBlock{StatelessBlock: &StatelessBlock{Block: Block{Tmstmp: 1500, Hght: 1, Txs: []*Transaction{tx}}}}
	results, ts, err := p.executeTxs(ctx, blk, parent, fm, r)
	if err != nil {
		// the block is invalid
		verifReach("block-rejected")
		verifReach("end")
		return
	}
	res := results[0]
	if res == nil {
		verifFail("verify-missing-result")
	}
	bill := c03Bill(prices, res.Units)
	if !bill.IsUint64() {
		verifFail("verify-fee-is-not-prices-times-units")
	}
	if res.Fee != bill.Uint64() {
		verifFail("verify-fee-is-not-prices-times-units")
	}
	after, err := hBH{}.GetBalance(ctx, addr, ts.NewView(state.CompletePermissions, parent, 0))
	if err != nil {
		verifFail("verify-sponsor-balance-unreadable")
	}
	if res.Fee > bal {
		verifFail("verify-sponsor-charged-other-than-fee")
	}
	if after != bal-res.Fee {
		verifFail("verify-sponsor-charged-other-than-fee")
	}
	if res.Fee > maxFee {
		verifFail("verify-block-charges-fee-above-max-fee")
	}
	verifReach("block-accepted")
	verifReach("end")
}

// VerifC07Build: the builder (real Builder.BuildBlock) with one real, marshalled transaction in the mempool; symbolic
// block unit prices (via the rules' minimum prices, see VerifC07Admission), compute units, balance and MaxFee.
func VerifC07Build() {
	ctx := context.Background()
	addr := codec.Address{1}
	r := c07Rules()
	for d := 0; d < fees.FeeDimensions; d++ {
		r.minPrice[d] = verifU64("price")
	}
	now := time.Now().UnixMilli()
	parentTs := now - 5000
	maxFee, bal := verifU64("maxFee"), verifU64("balance")
	u := verifU64("actionUnits")
	fail := verifChoose("fail", 2) == 1
	var saw uint64
	var ran bool
	tx, err := NewTransaction(Base{Timestamp: c12Expiry, MaxFee: maxFee},
		[]Action{c03FeeAction{units: u, fail: fail, saw: &saw, ran: &ran}}, hNewAuth(addr))
	if err != nil {
		verifFail("setup-new-transaction")
	}
	view := &c12View{m: map[string][]byte{
		string(HeightKey(hMeta{}.HeightPrefix())):       binary.BigEndian.AppendUint64(nil, 0),
		string(TimestampKey(hMeta{}.TimestampPrefix())): binary.BigEndian.AppendUint64(nil, uint64(parentTs)),
		string(FeeKey(hMeta{}.FeePrefix())):             internalfees.NewManager(nil).Bytes(),
		string(hBalKey(addr)):                           binary.BigEndian.AppendUint64(nil, bal),
	}}
	pool := &c12Pool{txs: []*Transaction{tx}}
	b := NewBuilder(trace.Noop, c12RF{r}, logging.NoLog{}, hMeta{}, hBH{}, pool, c12VW{}, c12Processor().metrics,
		Config{TransactionExecutionCores: 1, StateFetchConcurrency: 1, TargetBuildDuration: time.Minute, TargetTxsSize: 1 << 20})
	parentBlk := &ExecutionBlock{StatelessBlock: &StatelessBlock{Block: Block{Tmstmp: parentTs, Hght: 0}, id: ids.ID{99}}}
	blk, out, err := b.BuildBlock(ctx, nil, &OutputBlock{ExecutionBlock: parentBlk, View: view})
	if err != nil {
		// the builder produced no block: nothing to check for this property (vacuity markers require built blocks elsewhere)
		verifReach("build-error")
		verifReach("end")
		return
	}
	if len(blk.StatelessBlock.Txs) == 0 {
		verifReach("skipped")
		verifReach("end")
		return
	}
	er := out.ExecutionResults
	if len(er.Results) != 1 {
		verifFail("build-results-do-not-match-transactions")
	}
	res := er.Results[0]
	bill := c03Bill(er.UnitPrices, res.Units)
	if !bill.IsUint64() {
		verifFail("build-fee-is-not-prices-times-units")
	}
	if res.Fee != bill.Uint64() {
		verifFail("build-fee-is-not-prices-times-units")
	}
	after, err := hBH{}.GetBalance(ctx, addr, out.View)
	if err != nil {
		verifFail("build-sponsor-balance-unreadable")
	}
	if res.Fee > bal {
		verifFail("build-sponsor-charged-other-than-fee")
	}
	if after != bal-res.Fee {
		verifFail("build-sponsor-charged-other-than-fee")
	}
	if res.Fee > maxFee {
		verifFail("build-includes-fee-above-max-fee")
	}
	verifReach("included")
	verifReach("end")
}
