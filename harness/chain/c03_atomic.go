package chain

import (
	"context"
	"encoding/binary"
	"math/big"

	"github.com/ava-labs/avalanchego/ids"

	"github.com/ava-labs/hypersdk/codec"
	"github.com/ava-labs/hypersdk/fees"
	"github.com/ava-labs/hypersdk/state"
	"github.com/ava-labs/hypersdk/state/tstate"

	internalfees "github.com/ava-labs/hypersdk/internal/fees"
)

// ---- reference world shared by the scripted actions of one transaction ----

type c03cell struct {
	ok bool
	v  uint64
}

const c03NKeys = 3 // data key K1, data key K2, the sponsor's balance key

type c03World struct {
	keys      [c03NKeys][]byte
	undecl    []byte            // a key nobody declared
	cur       [c03NKeys]c03cell // the state as the actions have changed it so far (reference model)
	started   int               // actions that began to run
	completed int               // actions that returned successfully
	maxOps    int
}

// c03enc: data keys hold one byte, the balance key the usual 8-byte big-endian amount.
func c03enc(k int, v uint64) []byte {
	if k == c03NKeys-1 {
		return binary.BigEndian.AppendUint64(nil, v)
	}
	return []byte{byte(v)}
}

// c03same: does the stored value (or its absence) equal the reference cell?
func c03same(k int, val []byte, err error, c c03cell) bool {
	if (err == nil) != c.ok {
		return false
	}
	if err != nil {
		return true
	}
	if k == c03NKeys-1 {
		if len(val) != 8 {
			return false
		}
		return binary.BigEndian.Uint64(val) == c.v
	}
	if len(val) != 1 {
		return false
	}
	return uint64(val[0]) == c.v
}

// c03Action: a scripted action. It first reads every key (and must see the fee already deducted and the effects of all
// earlier actions), then performs up to maxOps writes/deletes on the three declared keys or an access to an undeclared
// key, then succeeds with a one-byte output or fails.
type c03Action struct {
	w   *c03World
	idx int
}

func (c03Action) ValidRange(Rules) (int64, int64) { return -1, -1 }
func (c03Action) Bytes() []byte                   { return []byte{1} }
func (c03Action) GetTypeID() uint8                { return 1 }
func (c03Action) ComputeUnits(Rules) uint64       { return 1 }
func (a c03Action) StateKeys(codec.Address, ids.ID) state.Keys {
	return state.Keys{string(a.w.keys[0]): state.All, string(a.w.keys[1]): state.All, string(a.w.keys[2]): state.All}
}

func (a c03Action) Execute(ctx context.Context, _ Rules, mu state.Mutable, _ int64, _ codec.Address, _ ids.ID) ([]byte, error) {
	w := a.w
	if a.idx != w.started {
		verifFail("actions-run-out-of-order")
	}
	if w.completed != w.started {
		verifFail("action-ran-after-a-failed-action")
	}
	w.started++
	for k := 0; k < c03NKeys; k++ {
		val, err := mu.GetValue(ctx, w.keys[k])
		if !c03same(k, val, err, w.cur[k]) {
			if k == c03NKeys-1 {
				verifFail("action-sees-wrong-sponsor-balance")
			}
			verifFail("action-sees-wrong-state")
		}
	}
	n := verifChoose("nops", w.maxOps+1)
	for j := 0; j < n; j++ {
		switch verifChoose("op", 3) {
		case 0:
			k := verifChoose("key", c03NKeys)
			v := uint64(verifU8("val"))
			if err := mu.Insert(ctx, w.keys[k], c03enc(k, v)); err != nil {
				return nil, err
			}
			w.cur[k] = c03cell{true, v}
		case 1:
			k := verifChoose("key", c03NKeys)
			if err := mu.Remove(ctx, w.keys[k]); err != nil {
				return nil, err
			}
			w.cur[k] = c03cell{}
		case 2:
			// access outside the declared keys: must fail, and a well-behaved action propagates the error
			if err := mu.Insert(ctx, w.undecl, []byte{1}); err != nil {
				verifReach("undeclared-access")
				return nil, err
			}
			verifFail("undeclared-write-succeeded")
		}
	}
	if verifChoose("fail", 2) == 1 {
		return nil, hErrAction
	}
	w.completed++
	return []byte{byte(0xA0 + a.idx)}, nil
}

func c03Tx(acts []Action, addr codec.Address, size int, maxFee uint64) *Transaction {
	return &Transaction{
		TransactionData: TransactionData{Base: Base{Timestamp: 2000, MaxFee: maxFee}, Actions: acts},
		Auth:            hNewAuth(addr), size: size, id: ids.ID{1},
	}
}

// VerifC03Atomic: the real Transaction.PreExecute + Execute on a real TStateView (as the processor and the builder run
// them) for a transaction of 1..maxActions scripted actions. Reference model: a map that the actions update as they
// go, and its snapshot right after the fee. Oracle = the statement: fee (prices x units) taken from the sponsor before
// the first action looks; all actions succeed => published state = model, Success, all outputs in order; some action
// fails => published state = initial state minus the fee only, !Success, outputs of exactly the actions that completed,
// no later action ran.
func VerifC03Atomic() {
	// quick: up to 2 actions x up to 2 state changes; thorough adds the shape up to 3 actions x up to 1 state change
	if verifParam("threeActionShape", 0, 1) == 1 {
		if verifChoose("shape", 2) == 1 {
			c03Atomic(3, 1)
			return
		}
	}
	c03Atomic(2, 2)
}

// VerifC05Tx: the same transaction-level check at a smaller bound, registered under C05 for its undeclared-access
// scripts: an action that touches a key outside the declared set gets an error, the transaction is reverted to the
// state right after the fee, later actions do not run, and the undeclared key is unchanged.
func VerifC05Tx() {
	c03Atomic(verifParam("maxActions", 2, 2), verifParam("maxOpsPerAction", 1, 2))
}

func c03Atomic(maxA, maxOps int) {
	ctx := context.Background()
	w := &c03World{maxOps: maxOps}
	addr := codec.Address{1}
	w.keys = [c03NKeys][]byte{{1, 0, 1}, {2, 0, 1}, hBalKey(addr)}
	w.undecl = []byte{3, 0, 1}
	r := hDefaultRules()

	storage := map[string][]byte{string(w.undecl): {7}}
	var initial [c03NKeys]c03cell
	if verifChoose("k1-present", 2) == 1 {
		initial[0] = c03cell{true, uint64(verifU8("k1"))}
		storage[string(w.keys[0])] = c03enc(0, initial[0].v)
	}
	initial[1] = c03cell{true, 5}
	storage[string(w.keys[1])] = c03enc(1, 5)
	bal := verifU64("balance")
	initial[2] = c03cell{true, bal}
	storage[string(w.keys[2])] = c03enc(2, bal)

	nA := 1 + verifChoose("actions", maxA)
	acts := make([]Action, nA)
	for i := range acts {
		acts[i] = c03Action{w, i}
	}
	tx := c03Tx(acts, addr, 50, 1<<62)

	prices := fees.Dimensions{3, 5, 7, 11, 13}
	fm := internalfees.NewManager(nil)
	for d := 0; d < fees.FeeDimensions; d++ {
		fm.SetUnitPrice(fees.Dimension(d), prices[d])
	}
	// the statement's units for this transaction under the default rules (all unit costs 1): size; base + one per action
	// + auth; three declared keys of one chunk each: 3 x (1 + 1) in every storage dimension
	units := fees.Dimensions{50, uint64(1 + nA + 1), 6, 6, 6}
	fee := uint64(0)
	for d := 0; d < fees.FeeDimensions; d++ {
		fee += prices[d] * units[d]
	}

	keys, err := tx.StateKeys(hBH{})
	if err != nil {
		verifFail("setup-state-keys")
	}
	ts := tstate.New(0)
	if initial[0].ok {
		// optionally an earlier transaction of the same block already deleted k1 (block-level pending delete): what this
		// transaction then writes must show in the block's post-state even if it equals the value still on disk
		if verifChoose("earlierTxDeletedK1", 2) == 1 {
			v0 := ts.NewView(state.CompletePermissions, state.ImmutableStorage(storage), 0)
			if err := v0.Remove(ctx, w.keys[0]); err != nil {
				verifFail("setup-remove-error")
			}
			v0.Commit()
			initial[0] = c03cell{}
			verifReach("block-level-delete")
		}
	}
	tsv := ts.NewView(keys, state.ImmutableStorage(storage), len(keys))
	if err := tx.PreExecute(ctx, fm, hBH{}, r, tsv, 1500); err != nil {
		// not included in any block
		if bal >= fee {
			verifFail("payable-transaction-rejected")
		}
		verifReach("cannot-pay")
		verifReach("end")
		return
	}
	if bal < fee {
		verifFail("unpayable-transaction-admitted")
	}
	// reference: the fee leaves the sponsor before anything else happens
	afterFee := initial
	afterFee[2].v = bal - fee
	w.cur = afterFee

	res, err := tx.Execute(ctx, fm, hBH{}, r, tsv, 1500)
	if err != nil {
		verifFail("execute-error-after-successful-preexecute")
	}
	tsv.Commit()

	if res.Fee != fee {
		verifFail("fee-is-not-prices-times-units")
	}
	if res.Units != units {
		verifFail("result-units-wrong")
	}
	want := afterFee
	if w.completed == nA {
		want = w.cur
		if !res.Success {
			verifFail("all-actions-succeeded-but-result-failed")
		}
		if len(res.Error) != 0 {
			verifFail("all-actions-succeeded-but-result-failed")
		}
		verifReach("all-succeeded")
	} else {
		if res.Success {
			verifFail("action-failed-but-result-success")
		}
		if w.started != w.completed+1 {
			verifFail("action-ran-after-a-failed-action")
		}
		verifReach("reverted")
	}
	if len(res.Outputs) != w.completed {
		verifFail("outputs-do-not-match-completed-actions")
	}
	for i := 0; i < w.completed; i++ {
		if len(res.Outputs[i]) != 1 {
			verifFail("outputs-do-not-match-completed-actions")
		}
		if res.Outputs[i][0] != byte(0xA0+i) {
			verifFail("outputs-do-not-match-completed-actions")
		}
	}
	full := ts.NewView(state.CompletePermissions, state.ImmutableStorage(storage), 0)
	for k := 0; k < c03NKeys; k++ {
		val, gerr := full.GetValue(ctx, w.keys[k])
		if !c03same(k, val, gerr, want[k]) {
			if w.completed == nA {
				verifFail("effects-of-successful-transaction-missing")
			}
			if k == c03NKeys-1 {
				verifFail("failed-transaction-sponsor-balance-is-not-initial-minus-fee")
			}
			verifFail("failed-transaction-left-effects")
		}
	}
	uval, uerr := full.GetValue(ctx, w.undecl)
	if uerr != nil {
		verifFail("undeclared-key-altered")
	}
	if uval[0] != 7 {
		verifFail("undeclared-key-altered")
	}
	verifReach("end")
}

// ---- fee arithmetic ----

// c03FeeAction: declares nothing; notes the sponsor balance it sees; succeeds or fails.
type c03FeeAction struct {
	units uint64
	fail  bool
	saw   *uint64
	ran   *bool
}

func (c03FeeAction) ValidRange(Rules) (int64, int64)            { return -1, -1 }
func (c03FeeAction) Bytes() []byte                              { return []byte{1} }
func (c03FeeAction) GetTypeID() uint8                           { return 1 }
func (a c03FeeAction) ComputeUnits(Rules) uint64                { return a.units }
func (c03FeeAction) StateKeys(codec.Address, ids.ID) state.Keys { return state.Keys{} }
func (a c03FeeAction) Execute(ctx context.Context, _ Rules, mu state.Mutable, _ int64, actor codec.Address, _ ids.ID) ([]byte, error) {
	b, err := hBH{}.GetBalance(ctx, actor, mu)
	if err != nil {
		verifFail("action-cannot-read-sponsor-balance")
	}
	*a.saw, *a.ran = b, true
	if a.fail {
		return nil, hErrAction
	}
	return []byte{1}, nil
}

// c03FeeRun: one transaction (one action) with symbolic unit prices, size, compute units and sponsor balance through
// PreExecute + Execute. Returns what the oracles of C03 (and C07) need.
type c03FeeRun struct {
	included bool // PreExecute accepted and Execute produced a result
	res      *Result
	prices   fees.Dimensions
	bal      uint64 // before
	after    uint64 // sponsor balance published by the transaction
	saw      uint64 // balance seen by the action
	ran      bool
	fail     bool
	maxFee   uint64
}

func c03RunFee(maxFee uint64) *c03FeeRun {
	ctx := context.Background()
	out := &c03FeeRun{maxFee: maxFee}
	addr := codec.Address{1}
	r := hDefaultRules()
	fm := internalfees.NewManager(nil)
	for d := 0; d < fees.FeeDimensions; d++ {
		out.prices[d] = verifU64("price")
		fm.SetUnitPrice(fees.Dimension(d), out.prices[d])
	}
	out.bal = verifU64("balance")
	out.fail = verifChoose("fail", 2) == 1
	size := verifInt("size")
	verifAssume(size >= 0)
	u := verifU64("actionUnits")
	tx := c03Tx([]Action{c03FeeAction{units: u, fail: out.fail, saw: &out.saw, ran: &out.ran}}, addr, size, maxFee)
	storage := map[string][]byte{string(hBalKey(addr)): binary.BigEndian.AppendUint64(nil, out.bal)}
	keys, err := tx.StateKeys(hBH{})
	if err != nil {
		verifFail("setup-state-keys")
	}
	ts := tstate.New(0)
	tsv := ts.NewView(keys, state.ImmutableStorage(storage), len(keys))
	if err := tx.PreExecute(ctx, fm, hBH{}, r, tsv, 1500); err != nil {
		return out
	}
	res, err := tx.Execute(ctx, fm, hBH{}, r, tsv, 1500)
	if err != nil {
		verifFail("execute-error-after-successful-preexecute")
	}
	tsv.Commit()
	out.included, out.res = true, res
	full := ts.NewView(state.CompletePermissions, state.ImmutableStorage(storage), 0)
	b, err := hBH{}.GetBalance(ctx, addr, full)
	if err != nil {
		verifFail("sponsor-balance-unreadable")
	}
	out.after = b
	return out
}

// c03Bill: Σ price·units in exact arithmetic.
func c03Bill(prices, units fees.Dimensions) *big.Int {
	s := new(big.Int)
	for d := 0; d < fees.FeeDimensions; d++ {
		s.Add(s, new(big.Int).Mul(new(big.Int).SetUint64(prices[d]), new(big.Int).SetUint64(units[d])))
	}
	return s
}

// VerifC03Fee: for all unit prices, sizes, compute units and balances: an included transaction is billed exactly
// Σ price·units (no wrap-around), the sponsor's published balance is the old one minus the fee whether the action
// succeeds or fails, and the action already sees the reduced balance.
func VerifC03Fee() {
	run := c03RunFee(1 << 62)
	if !run.included {
		verifReach("not-included")
		verifReach("end")
		return
	}
	bill := c03Bill(run.prices, run.res.Units)
	if !bill.IsUint64() {
		verifFail("fee-wrapped-around")
	}
	if run.res.Fee != bill.Uint64() {
		verifFail("fee-is-not-prices-times-units")
	}
	if run.res.Fee > run.bal {
		verifFail("fee-exceeds-balance")
	}
	if run.after != run.bal-run.res.Fee {
		verifFail("sponsor-not-charged-exactly-the-fee")
	}
	if !run.ran {
		verifFail("action-did-not-run")
	}
	if run.saw != run.bal-run.res.Fee {
		verifFail("fee-not-charged-before-action")
	}
	if run.res.Success == run.fail {
		verifFail("result-success-flag-wrong")
	}
	if run.fail {
		verifReach("failed-still-pays")
	}
	verifReach("end")
}
