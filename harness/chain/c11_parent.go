package chain

import (
	"context"
	"time"

	"github.com/ava-labs/avalanchego/database"
	"github.com/ava-labs/avalanchego/database/memdb"
	"github.com/ava-labs/avalanchego/ids"
	"github.com/ava-labs/avalanchego/trace"
	"github.com/ava-labs/avalanchego/utils/logging"
	"github.com/ava-labs/avalanchego/x/merkledb"
	"github.com/prometheus/client_golang/prometheus"

	"github.com/ava-labs/hypersdk/internal/fees"
	"github.com/ava-labs/hypersdk/state"
	"github.com/ava-labs/hypersdk/utils"
)

// ---- collaborators ----

// c11Mu is a map-backed mutable state (what writeBlockContext writes into and createBlockContext reads from).
type c11Mu struct{ m map[string][]byte }

func (s c11Mu) GetValue(_ context.Context, k []byte) ([]byte, error) {
	v, ok := s.m[string(k)]
	if !ok {
		return nil, database.ErrNotFound
	}
	return v, nil
}
func (s c11Mu) Insert(_ context.Context, k []byte, v []byte) error { s.m[string(k)] = v; return nil }
func (s c11Mu) Remove(_ context.Context, k []byte) error          { delete(s.m, string(k)); return nil }

type c11RuleFactory struct{ r *hRules }

func (f c11RuleFactory) GetRules(int64) Rules { return f.r }

// c11Rules: symbolic gaps in [0, 2^40); fee targets 0 so that the fee step of createBlockContext keeps the price (the
// fee market is C13) and costs no solver work.
func c11Rules() *hRules {
	r := hDefaultRules()
	r.target = [5]uint64{}
	r.minGap = verifI64("minGap")
	verifAssume(r.minGap >= 0)
	verifAssume(r.minGap < 1<<40)
	r.minEmptyGap = verifI64("minEmptyGap")
	verifAssume(r.minEmptyGap >= 0)
	verifAssume(r.minEmptyGap < 1<<40)
	return r
}

func c11Processor(r *hRules) *Processor {
	m, err := NewMetrics(prometheus.NewRegistry())
	if err != nil {
		verifFail("metrics-error")
	}
	return &Processor{tracer: trace.Noop, log: logging.NoLog{}, ruleFactory: c11RuleFactory{r}, metadataManager: hMeta{}, balanceHandler: hBH{}, metrics: m}
}

// c11Child: a child header with symbolic height and timestamp and 0 or 1 transactions (only the count is read).
func c11Child() (*ExecutionBlock, bool) {
	b := &ExecutionBlock{StatelessBlock: &StatelessBlock{}}
	b.Hght = verifU64("childHeight")
	b.Tmstmp = verifI64("childTs")
	empty := verifChoose("txs", 2) == 0
	if !empty {
		b.Txs = []*Transaction{nil}
	}
	return b, empty
}

// c11CheckChild states the property for one accepted child against its parent block's height and timestamp.
func c11CheckChild(child *ExecutionBlock, empty bool, parentHeight uint64, parentTs int64, r *hRules, genesis bool) {
	if child.Hght != parentHeight+1 {
		verifFail("height-not-parent-plus-one")
	}
	// parentTs >= 0 and gaps < 2^40: the sums below cannot wrap
	if child.Tmstmp < parentTs {
		if genesis {
			verifFail("timestamp-before-genesis-header")
		}
		verifFail("timestamp-before-parent")
	}
	if child.Tmstmp < parentTs+r.minGap {
		if genesis {
			verifFail("timestamp-gap-after-genesis-header")
		}
		verifFail("timestamp-gap-violated")
	}
	if empty {
		if child.Tmstmp < parentTs+r.minEmptyGap {
			if genesis {
				verifFail("timestamp-gap-after-genesis-header")
			}
			verifFail("empty-block-gap-violated")
		}
	}
}

// VerifC11Ordinary: the parent is an ordinary block (height, timestamp symbolic) whose post-state metadata is written
// by the real writeBlockContext; the child is checked by the real createBlockContext against that state.
func VerifC11Ordinary() {
	ctx := context.Background()
	r := c11Rules()
	p := c11Processor(r)
	ph := verifU64("parentHeight")
	verifAssume(ph < 1<<63)
	pts := verifI64("parentTs")
	verifAssume(pts >= 0)
	verifAssume(pts < 1<<62)
	st := c11Mu{m: map[string][]byte{}}
	if err := p.writeBlockContext(ctx, st, blockContext{height: ph, timestamp: pts, feeManager: fees.NewManager(nil)}); err != nil {
		verifFail("write-context-error")
	}
	child, empty := c11Child()
	bc, err := p.createBlockContext(ctx, st, child, r)
	if err != nil {
		verifReach("rejected")
		verifReach("end")
		return
	}
	c11CheckChild(child, empty, ph, pts, r, false)
	if bc.height != child.Hght {
		verifFail("context-height-wrong")
	}
	if bc.timestamp != child.Tmstmp {
		verifFail("context-timestamp-wrong")
	}
	verifReach("accepted")
	verifReach("end")
}

// ---- state database: real merkledb natively, map model in the engine (Redirects) ----

func c11BaseView() merkledb.View {
	db, err := merkledb.New(context.Background(), memdb.New(), merkledb.Config{BranchFactor: merkledb.BranchFactor16, Tracer: trace.Noop})
	if err != nil {
		panic(err)
	}
	return db
}

type c11View struct {
	keys []string
	vals map[string][]byte
}

func c11ModelBase() any { return &c11View{vals: map[string][]byte{}} }

func (v *c11View) GetValue(_ context.Context, key []byte) ([]byte, error) {
	if val, ok := v.vals[string(key)]; ok {
		return val, nil
	}
	return nil, database.ErrNotFound
}

func (v *c11View) NewView(_ context.Context, changes merkledb.ViewChanges) (any, error) {
	nv := &c11View{vals: map[string][]byte{}}
	for _, k := range v.keys {
		nv.keys = append(nv.keys, k)
		nv.vals[k] = v.vals[k]
	}
	for k, mv := range changes.MapOps {
		if mv.HasValue() {
			if _, had := nv.vals[k]; !had {
				nv.keys = append(nv.keys, k)
			}
			nv.vals[k] = mv.Value()
		}
	}
	return nv, nil
}

func (v *c11View) GetMerkleRoot(context.Context) (ids.ID, error) {
	if len(v.keys) == 0 {
		return ids.Empty, nil
	}
	var buf []byte
	for _, k := range v.keys {
		buf = append(buf, byte(len(k)))
		buf = append(buf, k...)
		val := v.vals[k]
		buf = append(buf, byte(len(val)))
		buf = append(buf, val...)
	}
	return utils.ToID(buf), nil
}

type c11Genesis struct{}

func (c11Genesis) InitializeState(context.Context, trace.Tracer, state.Mutable, BalanceHandler) error {
	return nil
}

// VerifC11Genesis: the parent is the genesis commit produced by the real NewGenesisCommit; its child is checked by the
// real createBlockContext against the genesis view, and must respect the genesis block header like any other parent.
func VerifC11Genesis() {
	ctx := context.Background()
	r := c11Rules()
	p := c11Processor(r)
	gblk, gview, err := NewGenesisCommit(ctx, c11BaseView(), c11Genesis{}, hMeta{}, hBH{}, c11RuleFactory{r}, trace.Noop, logging.NoLog{})
	if err != nil {
		verifFail("genesis-commit-error")
	}
	child, empty := c11Child()
	if _, err := p.createBlockContext(ctx, gview, child, r); err != nil {
		verifReach("rejected")
		verifReach("end")
		return
	}
	c11CheckChild(child, empty, gblk.Hght, gblk.Tmstmp, r, true)
	verifReach("accepted")
	verifReach("end")
}

// VerifC11Root: verifyParentRoot accepts exactly the root of the parent's post-state (the claimed root is the true one
// with one byte, at a chosen position, xor-ed with a symbolic value).
func VerifC11Root() {
	ctx := context.Background()
	r := hDefaultRules()
	p := c11Processor(r)
	_, gview, err := NewGenesisCommit(ctx, c11BaseView(), c11Genesis{}, hMeta{}, hBH{}, c11RuleFactory{r}, trace.Noop, logging.NoLog{})
	if err != nil {
		verifFail("genesis-commit-error")
	}
	root, err := gview.GetMerkleRoot(ctx)
	if err != nil {
		verifFail("root-error")
	}
	claimed := root
	pos := []int{0, 15, 31}[verifChoose("pos", 3)]
	d := verifU8("delta")
	claimed[pos] ^= d
	err = p.verifyParentRoot(ctx, gview, claimed)
	if d == 0 {
		if err != nil {
			verifFail("true-root-rejected")
		}
		verifReach("accepted")
	} else {
		if err == nil {
			verifFail("wrong-root-accepted")
		}
		verifReach("rejected")
	}
	verifReach("end")
}

const c11Slack = int64(3600_000) // one hour, in ms: far beyond the time a call takes

// VerifC11Future: Processor.Execute refuses a block whose timestamp is (more than an hour) beyond local time + FutureBound
// before looking at anything else. (The exact bound cannot be pinned: the code reads the wall clock itself.)
func VerifC11Future() {
	ctx := context.Background()
	r := hDefaultRules()
	p := c11Processor(r)
	now := time.Now().UnixMilli()
	x := verifI64("ahead")
	verifAssume(x >= 0)
	verifAssume(x < 1<<50)
	b := &ExecutionBlock{StatelessBlock: &StatelessBlock{}}
	b.Hght = verifU64("childHeight")
	b.Tmstmp = now + FutureBound.Milliseconds() + c11Slack + x
	out, err := p.Execute(ctx, nil, b, verifChoose("normalOp", 2) == 1)
	if err == nil {
		verifFail("future-block-executed")
	}
	if out != nil {
		verifFail("future-block-output")
	}
	verifReach("end")
}

// VerifC11Builder: BuildBlock produces no block while local time is before parent timestamp + MinBlockGap (parent more
// than an hour ahead of local time).
func VerifC11Builder() {
	ctx := context.Background()
	r := c11Rules()
	bld := &Builder{tracer: trace.Noop, log: logging.NoLog{}, ruleFactory: c11RuleFactory{r}, metadataManager: hMeta{}, balanceHandler: hBH{}}
	now := time.Now().UnixMilli()
	x := verifI64("ahead")
	verifAssume(x >= 0)
	verifAssume(x < 1<<50)
	parent := &ExecutionBlock{StatelessBlock: &StatelessBlock{}}
	parent.Hght = verifU64("parentHeight")
	parent.Tmstmp = now + c11Slack + x
	eb, ob, err := bld.BuildBlock(ctx, nil, &OutputBlock{ExecutionBlock: parent})
	if err == nil {
		verifFail("built-before-parent-plus-gap")
	}
	if eb != nil {
		verifFail("built-before-parent-plus-gap")
	}
	if ob != nil {
		verifFail("built-before-parent-plus-gap")
	}
	verifReach("end")
}
