package chain

import (
	"context"
	"encoding/binary"
	"time"

	"github.com/ava-labs/avalanchego/database"
	"github.com/ava-labs/avalanchego/ids"
	"github.com/ava-labs/avalanchego/trace"
	"github.com/ava-labs/avalanchego/utils/logging"
	"github.com/ava-labs/avalanchego/utils/set"
	"github.com/ava-labs/avalanchego/x/merkledb"
	"github.com/prometheus/client_golang/prometheus"

	"github.com/ava-labs/hypersdk/codec"
	"github.com/ava-labs/hypersdk/fees"
	"github.com/ava-labs/hypersdk/internal/validitywindow"
	"github.com/ava-labs/hypersdk/internal/workers"
	"github.com/ava-labs/hypersdk/state"

	internalfees "github.com/ava-labs/hypersdk/internal/fees"
)

// c02View: a merkledb.View whose content is a map; the root identifies the content generation (it stands for a hash:
// builder and verifier must derive the same child from the same parent).
type c02View struct {
	merkledb.View
	m   map[string][]byte
	gen byte
}

func (v *c02View) GetValue(_ context.Context, k []byte) ([]byte, error) {
	x, ok := v.m[string(k)]
	if !ok {
		return nil, database.ErrNotFound
	}
	return x, nil
}
func (v *c02View) GetMerkleRoot(context.Context) (ids.ID, error) { return ids.ID{v.gen}, nil }
func (v *c02View) NewView(_ context.Context, ch merkledb.ViewChanges) (merkledb.View, error) {
	n := &c02View{m: map[string][]byte{}, gen: v.gen + 1}
	for k, x := range v.m {
		n.m[k] = x
	}
	for k, x := range ch.MapOps {
		if x.HasValue() {
			n.m[k] = x.Value()
		} else {
			delete(n.m, k)
		}
	}
	return n, nil
}

// c02VW: replay protection is C09's subject; here nothing repeats.
type c02VW struct{}

func (c02VW) VerifyExpiryReplayProtection(context.Context, validitywindow.ExecutionBlock[*Transaction]) error {
	return nil
}
func (c02VW) Accept(validitywindow.ExecutionBlock[*Transaction]) {}
func (c02VW) IsRepeat(context.Context, validitywindow.ExecutionBlock[*Transaction], int64, []*Transaction) (set.Bits, error) {
	return set.NewBits(), nil
}

// c02Pool: a mempool that streams its transactions in one batch.
type c02Pool struct {
	txs      []*Transaction
	restored []*Transaction
}

func (p *c02Pool) Len(context.Context) int             { return len(p.txs) }
func (p *c02Pool) Size(context.Context) int            { return 0 }
func (p *c02Pool) Add(context.Context, []*Transaction) {}
func (p *c02Pool) StartStreaming(context.Context)      {}
func (p *c02Pool) PrepareStream(context.Context, int)  {}
func (p *c02Pool) Stream(context.Context, int) []*Transaction {
	out := p.txs
	p.txs = nil
	return out
}
func (p *c02Pool) FinishStreaming(_ context.Context, r []*Transaction) int {
	p.restored = append(p.restored, r...)
	return len(r)
}

type c02RF struct{ r *hRules }

func (f c02RF) GetRules(int64) Rules { return f.r }

type c02Engines struct{}

func (c02Engines) GetAuthBatchVerifier(uint8, int, int) (AuthBatchVerifier, bool) { return nil, false }

const c02MaxTxs = 3

// VerifC02: whatever the mempool holds (transactions that cannot pay, are expired, fail, conflict on a key or on the
// sponsor balance), a block that Builder.BuildBlock produces on a parent is accepted by Processor.Execute on the same
// parent with identical results, fees, units consumed, unit prices and post-state.
func VerifC02() {
	ctx := context.Background()
	now := time.Now().UnixMilli()
	nTxs := 1 + verifChoose("mempoolTxs", verifParam("maxTxs", 2, 2))
	rules := hDefaultRules()
	if nTxs > 1 {
		// a block limit that only fits one transaction — in bandwidth (the first dimension checked) or in compute (a later
		// one): the second transaction must be left out without leaving a trace in the builder's consumption
		switch verifChoose("tightBlock", 3) {
		case 1:
			rules.maxBlock[fees.Bandwidth] = 60
		case 2:
			rules.maxBlock[fees.Compute] = 4
		}
	}
	parentView := &c02View{m: map[string][]byte{}}
	fm0 := internalfees.NewManager(nil)
	for d := fees.Dimension(0); d < fees.FeeDimensions; d++ {
		fm0.SetUnitPrice(d, 1)
	}
	meta := hMeta{}
	parentView.m[string(HeightKey(meta.HeightPrefix()))] = binary.BigEndian.AppendUint64(nil, 0)
	parentView.m[string(TimestampKey(meta.TimestampPrefix()))] = binary.BigEndian.AppendUint64(nil, 0)
	parentView.m[string(FeeKey(meta.FeePrefix()))] = fm0.Bytes()
	if verifChoose("parentHasKey", verifParam("parentKeyVariants", 2, 2)) == 0 {
		parentView.m[string(c01DataKey)] = []byte{7}
	}
	addrs := [3]codec.Address{{1}, {2}, {3}}
	parentView.m[string(hBalKey(addrs[0]))] = binary.BigEndian.AppendUint64(nil, 1_000_000)
	parentView.m[string(hBalKey(addrs[1]))] = binary.BigEndian.AppendUint64(nil, 1_000_000)
	parentView.m[string(hBalKey(addrs[2]))] = binary.BigEndian.AppendUint64(nil, 3) // cannot pay any fee
	var txs []*Transaction
	var reads [c02MaxTxs][c01MaxOps]int
	for i := 0; i < nTxs; i++ {
		// kind: 0 reads the key, 1 inserts, 2 removes, 3 inserts then fails, 4 expired, 5 sponsor cannot pay
		kind := verifChoose("txKind", verifParam("txKinds", 5, 6))
		sp := 0
		if i > 0 {
			sp = verifChoose("sponsor", 2) // same sponsor as tx 0 (conflict on the balance key) or another one
		}
		a := c01Action{val: byte(10 * (i + 1)), reads: &reads[i], nops: 1, perm: state.All}
		exp := now + 2000
		switch kind {
		case 0:
			a.perm = state.Read
		case 1:
			a.ops[0] = 1
		case 2:
			a.ops[0] = 2
		case 3:
			a.ops[0] = 1
			a.fail = true
		case 4:
			a.ops[0] = 1
			exp = now - 5000
		case 5:
			a.ops[0] = 1
			sp = 2
		}
		exp -= exp % 1000
		txs = append(txs, &Transaction{
			TransactionData: TransactionData{Base: Base{Timestamp: exp + 1000, ChainID: rules.chainID, MaxFee: 1 << 40}, Actions: []Action{a}},
			Auth:            hNewAuth(addrs[sp]),
			size:            50,
			id:              ids.ID{byte(1 + i)},
		})
	}
	pool := &c02Pool{txs: txs}
	cores := 1
	if nTxs > 1 {
		cores = 1 + verifChoose("cores", verifParam("maxCores", 1, 2))
	}
	cfg := Config{TransactionExecutionCores: cores, StateFetchConcurrency: 1, TargetBuildDuration: time.Hour, TargetTxsSize: 1 << 20}
	metrics, err := NewMetrics(prometheus.NewRegistry())
	if err != nil {
		verifFail("metrics-error")
	}
	b := &Builder{tracer: trace.Noop, log: logging.NoLog{}, ruleFactory: c02RF{rules}, metadataManager: meta, balanceHandler: hBH{},
		mempool: pool, validityWindow: c02VW{}, metrics: metrics, config: cfg}
	parentBlk := &ExecutionBlock{StatelessBlock: &StatelessBlock{Block: Block{Tmstmp: 0, Hght: 0}, id: ids.ID{99}}}
	parentOut := &OutputBlock{ExecutionBlock: parentBlk, View: parentView}
	blk, out, err := b.BuildBlock(ctx, nil, parentOut)
	if err != nil {
		verifReach("build-error")
		verifReach("end")
		return
	}
	verifReach("built")
	if len(blk.StatelessBlock.Txs) == nTxs {
		if nTxs > 1 {
			verifReach("all-included")
		}
	} else {
		verifReach("some-left-out")
	}
	serial := workers.NewSerial()
	p := &Processor{tracer: trace.Noop, log: logging.NoLog{}, ruleFactory: c02RF{rules}, authVerificationWorkers: serial, authEngines: c02Engines{},
		metadataManager: meta, balanceHandler: hBH{}, validityWindow: c02VW{}, metrics: metrics, config: cfg}
	vout, verr := p.Execute(ctx, parentView, blk, true)
	if verr != nil {
		verifFail("built-block-fails-verification")
	}
	br, vr := out.ExecutionResults, vout.ExecutionResults
	if len(vr.Results) != len(br.Results) {
		verifFail("result-count-differs")
	}
	if len(br.Results) != len(blk.StatelessBlock.Txs) {
		verifFail("builder-results-do-not-match-block-transactions")
	}
	for i := range vr.Results {
		if vr.Results[i].Success != br.Results[i].Success {
			verifFail("result-success-differs")
		}
		if vr.Results[i].Fee != br.Results[i].Fee {
			verifFail("result-fee-differs")
		}
		for d := 0; d < fees.FeeDimensions; d++ {
			if vr.Results[i].Units[d] != br.Results[i].Units[d] {
				verifFail("result-units-differ")
			}
		}
		if len(vr.Results[i].Outputs) != len(br.Results[i].Outputs) {
			verifFail("result-outputs-differ")
		}
	}
	for d := 0; d < fees.FeeDimensions; d++ {
		if vr.UnitsConsumed[d] != br.UnitsConsumed[d] {
			verifFail("units-consumed-differ")
		}
		if vr.UnitPrices[d] != br.UnitPrices[d] {
			verifFail("unit-prices-differ")
		}
		if br.UnitsConsumed[d] > rules.maxBlock[d] {
			verifFail("built-block-exceeds-block-limit")
		}
	}
	bv, vv := out.View.(*c02View), vout.View.(*c02View)
	if len(bv.m) != len(vv.m) {
		verifFail("post-state-differs")
	}
	for k, x := range bv.m {
		y, ok := vv.m[k]
		if !ok {
			verifFail("post-state-differs")
		}
		if len(x) != len(y) {
			verifFail("post-state-differs")
		}
		for j := range x {
			if x[j] != y[j] {
				verifFail("post-state-differs")
			}
		}
	}
	br0, _ := out.View.GetMerkleRoot(ctx)
	vr0, _ := vout.View.GetMerkleRoot(ctx)
	if br0 != vr0 {
		verifFail("post-state-root-differs")
	}
	verifReach("end")
}
