package chain

import (
	"context"
	"encoding/binary"

	"github.com/ava-labs/avalanchego/ids"

	"github.com/ava-labs/hypersdk/codec"
	"github.com/ava-labs/hypersdk/state"
	"github.com/ava-labs/hypersdk/state/tstate"
)

// c05Action only declares keys.
type c05Action struct{ keys state.Keys }

func (c05Action) ValidRange(Rules) (int64, int64)              { return -1, -1 }
func (c05Action) Bytes() []byte                                { return []byte{1} }
func (c05Action) GetTypeID() uint8                             { return 1 }
func (c05Action) ComputeUnits(Rules) uint64                    { return 1 }
func (a c05Action) StateKeys(codec.Address, ids.ID) state.Keys { return a.keys }
func (c05Action) Execute(context.Context, Rules, state.Mutable, int64, codec.Address, ids.ID) ([]byte, error) {
	return nil, nil
}

type c05cell struct {
	ok bool
	v  byte
}

// VerifC05Scope: the scope a transaction executes in is the real Transaction.StateKeys (union over two actions that
// both declare key A, and the sponsor) handed to a real TStateView, exactly as the processor and builder do. An
// arbitrary sequence of get/insert/remove attempts on A, on B and on A's twin (same name, different size suffix, never
// declared) is checked against the statement:
//
//	a read succeeds only with the read bit; insert-over-existing and remove only with Write (= write+read bits);
//	creating an absent key only with Write and Allocate; a failed access returns no data and changes nothing:
//	the state published by the view is the initial state plus the effects of the SUCCESSFUL operations only.
func VerifC05Scope() {
	ctx := context.Background()
	maxOps := verifParam("ops", 3, 4)
	keyA, twinA, keyB := []byte{1, 0, 1}, []byte{1, 0, 2}, []byte{2, 0, 1}
	ks := [3][]byte{keyA, twinA, keyB}
	p0, p1, p2 := state.Permissions(verifU8("perm")), state.Permissions(verifU8("perm")), state.Permissions(verifU8("perm"))
	addr := codec.Address{1}
	tx := &Transaction{
		TransactionData: TransactionData{Base: Base{Timestamp: 1000, MaxFee: 1}, Actions: []Action{
			c05Action{state.Keys{string(keyA): p0}},
			c05Action{state.Keys{string(keyA): p1, string(keyB): p2}},
		}},
		Auth: hNewAuth(addr), size: 50, id: ids.ID{1},
	}
	declared, err := tx.StateKeys(hBH{})
	if err != nil {
		verifFail("setup-state-keys")
	}
	// what the transaction declared, per key of the universe (the twin is not declared by anybody)
	perm := [3]uint8{uint8(p0) | uint8(p1), 0, uint8(p2)}

	// initial state: A absent, twin and B present
	storage := map[string][]byte{
		string(twinA):         {9},
		string(keyB):          {8},
		string(hBalKey(addr)): binary.BigEndian.AppendUint64(nil, 1000),
	}
	model := [3]c05cell{{}, {true, 9}, {true, 8}}

	ts := tstate.New(0)
	v := ts.NewView(declared, state.ImmutableStorage(storage), len(declared))
	n := 1 + verifChoose("n", maxOps)
	for i := 0; i < n; i++ {
		k := verifChoose("key", 3)
		switch verifChoose("op", 3) {
		case 0:
			val, err := v.GetValue(ctx, ks[k])
			if err == nil {
				if perm[k]&1 != 1 {
					verifFail("read-without-read-permission")
				}
				if !model[k].ok {
					verifFail("read-of-absent-key-succeeded")
				}
				if len(val) != 1 {
					verifFail("read-wrong-value")
				}
				if val[0] != model[k].v {
					verifFail("read-wrong-value")
				}
				verifReach("read-ok")
			} else {
				if len(val) != 0 {
					verifFail("failed-read-returned-data")
				}
				if perm[k]&1 == 1 {
					if model[k].ok {
						verifFail("declared-read-failed")
					}
				} else {
					verifReach("read-denied")
				}
			}
		case 1:
			b := verifU8("val")
			if v.Insert(ctx, ks[k], []byte{b}) == nil {
				if perm[k]&5 != 5 {
					verifFail("write-without-write-permission")
				}
				if !model[k].ok {
					if perm[k]&7 != 7 {
						verifFail("create-without-allocate-permission")
					}
					verifReach("created")
				}
				model[k] = c05cell{true, b}
			} else {
				verifReach("write-denied")
			}
		case 2:
			if v.Remove(ctx, ks[k]) == nil {
				if perm[k]&5 != 5 {
					verifFail("remove-without-write-permission")
				}
				model[k] = c05cell{}
				verifReach("removed")
			}
		}
	}
	v.Commit()
	// what the transaction published, read back without any scope restriction
	full := ts.NewView(state.CompletePermissions, state.ImmutableStorage(storage), 0)
	for k := 0; k < 3; k++ {
		val, err := full.GetValue(ctx, ks[k])
		if (err == nil) != model[k].ok {
			verifFail("state-changed-by-failed-access")
		}
		if err == nil {
			if len(val) != 1 {
				verifFail("state-changed-by-failed-access")
			}
			if val[0] != model[k].v {
				verifFail("state-changed-by-failed-access")
			}
		}
	}
	// the sponsor's balance key was not touched by any of this
	bal, err := full.GetValue(ctx, hBalKey(addr))
	if err != nil {
		verifFail("sponsor-key-altered")
	}
	if binary.BigEndian.Uint64(bal) != 1000 {
		verifFail("sponsor-key-altered")
	}
	verifReach("end")
}
