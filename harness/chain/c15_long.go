package chain

import (
	"context"

	"github.com/ava-labs/hypersdk/codec"
)

// c15LongAuth: an auth scheme with a long credential (like BLS: > 127 bytes), so that the length prefix of the auth
// field (and of the whole transaction inside a block) needs more than one varint byte.
type c15LongAuth struct {
	payload []byte // wire form: typeID ‖ payload
}

const c15LongAuthType = 4

func (c15LongAuth) GetTypeID() uint8 { return c15LongAuthType }
func (a c15LongAuth) Bytes() []byte  { return append([]byte{c15LongAuthType}, a.payload...) }
func (c15LongAuth) ValidRange(Rules) (int64, int64)      { return -1, -1 }
func (c15LongAuth) ComputeUnits(Rules) uint64            { return 1 }
func (c15LongAuth) Verify(context.Context, []byte) error { return nil }
func (a c15LongAuth) Actor() codec.Address               { return codec.Address{c15LongAuthType} }
func (a c15LongAuth) Sponsor() codec.Address             { return codec.Address{c15LongAuthType} }

func c15LongParser(authLen int) Parser {
	ar := codec.NewTypeParser[Action]()
	if err := ar.Register(c15Action{id: 0}, func(b []byte) (Action, error) {
		if len(b) != 2 {
			return nil, c15ErrSize
		}
		return c15Action{0, b[1]}, nil
	}); err != nil {
		verifFail("register-action")
	}
	au := codec.NewTypeParser[Auth]()
	if err := au.Register(c15LongAuth{}, func(b []byte) (Auth, error) {
		if len(b) != authLen {
			return nil, c15ErrSize
		}
		return c15LongAuth{payload: c15Copy(b[1:])}, nil
	}); err != nil {
		verifFail("register-auth")
	}
	return NewTxTypeParser(ar, au)
}

// VerifC15TxLongAuth: transactions whose auth encoding is 126..130 (thorough also 16382..16385) bytes long — around the
// boundaries where the field's length prefix grows by a byte — are parsed back from their encoding with the signed
// message equal to the encoding of the body without the auth field, the ID equal to the hash of the bytes, and the
// bytes equal to body ‖ auth field.
func VerifC15TxLongAuth() {
	lens := []int{126, 127, 128, 129, 130, 16382, 16383, 16384, 16385}
	l := lens[verifChoose("authLen", verifParam("authLens", 5, len(lens)))]
	payload := make([]byte, l-1)
	payload[0], payload[len(payload)-1] = verifU8("authFirst"), verifU8("authLast")
	n := verifChoose("actions", 2)
	actions := make([]Action, n)
	for i := range actions {
		actions[i] = c15Action{0, verifU8("apayload")}
	}
	b := c15Base()
	if verifChoose("emptyBase", 2) == 1 {
		b = Base{}
	}
	tx, err := NewTransaction(b, actions, c15LongAuth{payload: payload})
	if err != nil {
		verifFail("new-transaction")
	}
	in := c15Copy(tx.Bytes())
	got, err := UnmarshalTx(c15Copy(in), c15LongParser(l))
	if err != nil {
		verifFail("long-auth-transaction-rejected")
	}
	c15CheckTx(got, in, "long-auth-tx")
	c15Same(got.UnsignedBytes(), tx.UnsignedBytes(), "long-auth-tx-unsigned-bytes-differ-from-issuer")
	verifReach("end")
}
