package keys

import "encoding/binary"

// c40RefChunks is the property's arithmetic: 0 chunks for an empty value, floor(n/64)+1 otherwise,
// representable only up to 65535.
func c40RefChunks(n int) (int, bool) {
	if n == 0 {
		return 0, true
	}
	c := n/64 + 1
	return c, c <= 65535
}

// VerifC40Keys: key/value chunk arithmetic of package keys for every key of length 0..maxKeyLen (symbolic bytes)
// and every value length 0..maxValLen (abstract-content slice, symbolic length).
func VerifC40Keys() {
	maxKeyLen := verifParam("maxKeyLen", 4, 7)
	maxValLen := verifParam("maxValLen", 1<<23, 1<<26)
	kl := verifChoose("keylen", maxKeyLen+1)
	key := verifBytes("kb", kl)

	mc, ok := MaxChunks(key)
	if ok != (kl >= 2) {
		verifFail("maxchunks-ok")
	}
	if ok {
		want := uint16(key[kl-2])<<8 | uint16(key[kl-1])
		if mc != want {
			verifFail("maxchunks-value")
		}
	}
	if Valid(string(key)) != (kl >= 2) {
		verifFail("valid-short-key")
	}
	dc, ok2 := DecodeChunks(key)
	if ok2 != ok {
		verifFail("decode-ok")
	}
	if ok && dc != mc {
		verifFail("decode-value")
	}
	// Verify(maxKeySize, maxValueChunks, key)
	mks := verifU32("mks")
	mvc := verifU16("mvc")
	wantVerify := kl >= 2 && uint32(kl) <= mks && mc <= mvc
	if Verify(mks, mvc, key) != wantVerify {
		verifFail("verify")
	}

	// value of symbolic length n
	val := verifBlob("vlen", maxValLen)
	n := len(val)
	got, gok := NumChunks(val)
	want, wok := c40RefChunks(n)
	if gok != wok {
		verifFail("numchunks-ok")
	}
	if gok && int(got) != want {
		verifFail("numchunks-value")
	}
	// a value can be written to a key only if its chunk count does not exceed the key's number
	vv := VerifyValue(key, val)
	wantVV := ok && wok && want <= int(mc)
	if vv != wantVV {
		if vv {
			verifFail("verifyvalue-admits-too-large")
		}
		verifFail("verifyvalue-rejects-fitting")
	}
	if vv {
		verifReach("value-fits")
	}

	// Encode(key, m) admits every value of length n <= m
	big := verifBlob("vlen2", maxValLen)
	m := len(big)
	verifAssume(m >= n)
	_, mok := c40RefChunks(m)
	enc, eok := Encode(key, m)
	if eok != mok {
		verifFail("encode-ok")
	}
	if eok {
		if len(enc) != kl+2 {
			verifFail("encode-len")
		}
		for i := 0; i < kl; i++ {
			if enc[i] != key[i] {
				verifFail("encode-prefix")
			}
		}
		if !VerifyValue(enc, val) {
			verifFail("encode-does-not-admit-smaller-value")
		}
		if !VerifyValue(enc, big) {
			verifFail("encode-does-not-admit-max-value")
		}
		verifReach("encoded")
	}
	// EncodeChunks/DecodeChunks round trip
	c := verifU16("chunks")
	ek := EncodeChunks(key, c)
	back, bok := DecodeChunks(ek)
	if !bok {
		verifFail("encodechunks-decode-ok")
	}
	if back != c {
		verifFail("encodechunks-roundtrip")
	}
	if binary.BigEndian.Uint16(ek[len(ek)-2:]) != c {
		verifFail("encodechunks-suffix")
	}
	verifReach("end")
}
