package fees

import (
	"github.com/ava-labs/hypersdk/fees"
	"github.com/ava-labs/hypersdk/internal/window"
)

// VerifC13RoundTrip: the encoded fee state decodes to the same prices, window and consumption (all 5 dimensions,
// arbitrary raw state bytes).
func VerifC13RoundTrip() {
	raw := verifBytes("raw", 8+fees.FeeDimensions*dimensionStateLen)
	m := NewManager(raw)
	enc := append([]byte{}, m.Bytes()...)
	m2 := NewManager(enc)
	for d := fees.Dimension(0); d < fees.FeeDimensions; d++ {
		if m2.UnitPrice(d) != m.UnitPrice(d) {
			verifFail("price-roundtrip")
		}
		if m2.LastConsumed(d) != m.LastConsumed(d) {
			verifFail("consumed-roundtrip")
		}
		w1, w2 := m.Window(d), m2.Window(d)
		for i := 0; i < window.WindowSliceSize; i++ {
			if w1[i] != w2[i] {
				verifFail("window-roundtrip")
			}
		}
	}
	// setters are visible through the encoding
	p, c := verifU64("p"), verifU64("c")
	d := fees.Dimension(verifChoose("dim", fees.FeeDimensions))
	m.SetUnitPrice(d, p)
	m.SetLastConsumed(d, c)
	m3 := NewManager(append([]byte{}, m.Bytes()...))
	if m3.UnitPrice(d) != p {
		verifFail("set-price-roundtrip")
	}
	if m3.LastConsumed(d) != c {
		verifFail("set-consumed-roundtrip")
	}
	for o := fees.Dimension(0); o < fees.FeeDimensions; o++ {
		if o != d {
			if m3.UnitPrice(o) != m2.UnitPrice(o) {
				verifFail("set-price-clobbers-other-dimension")
			}
			if m3.LastConsumed(o) != m2.LastConsumed(o) {
				verifFail("set-consumed-clobbers-other-dimension")
			}
		}
	}
	verifReach("end")
}
