package fees

import (
	"github.com/ava-labs/hypersdk/consts"
	"github.com/ava-labs/hypersdk/fees"
)

// c12over: old+d does not fit under the limit (mathematically: wrap-around counts as not fitting).
func c12over(old, d, l uint64) bool {
	if d > consts.MaxUint64-old {
		return true
	}
	if old+d > l {
		return true
	}
	return false
}

// VerifC12Consume: one Consume call from an arbitrary consumption state: all-or-nothing per call, accepted iff every
// dimension fits (mathematically) under its limit, the manager's other state (prices) untouched.
func VerifC12Consume() {
	m := NewManager(nil)
	var old, d, l fees.Dimensions
	for i := 0; i < fees.FeeDimensions; i++ {
		old[i], d[i], l[i] = verifU64("old"), verifU64("units"), verifU64("limit")
		m.SetLastConsumed(fees.Dimension(i), old[i])
		m.SetUnitPrice(fees.Dimension(i), uint64(7+i))
	}
	ok, dim := m.Consume(d, l)
	now := m.UnitsConsumed()
	if ok {
		for i := 0; i < fees.FeeDimensions; i++ {
			if c12over(old[i], d[i], l[i]) {
				verifFail("consume-accepted-over-limit")
			}
			if now[i] != old[i]+d[i] {
				verifFail("consume-wrong-sum")
			}
			if now[i] != m.LastConsumed(fees.Dimension(i)) {
				verifFail("consume-accessors-disagree")
			}
		}
		verifReach("accepted")
	} else {
		// rejected: the reported dimension (the builder uses it to decide whether to stop) must be one that does not
		// fit -- in particular some dimension does not fit -- and nothing was consumed
		if dim < 0 {
			verifFail("consume-reported-dimension-invalid")
		}
		if dim >= fees.FeeDimensions {
			verifFail("consume-reported-dimension-invalid")
		}
		if !c12over(old[dim], d[dim], l[dim]) {
			verifFail("consume-rejected-although-fits")
		}
		for i := 0; i < fees.FeeDimensions; i++ {
			if now[i] != old[i] {
				verifFail("consume-partial-update")
			}
		}
		verifReach("rejected")
	}
	for i := 0; i < fees.FeeDimensions; i++ {
		if m.UnitPrice(fees.Dimension(i)) != uint64(7+i) {
			verifFail("consume-clobbered-price")
		}
	}
	verifReach("end")
}

// VerifC12Sequence: a block's worth of Consume calls (as the processor and the builder issue them) against one
// accumulator per dimension: consumption never exceeds the limit, a rejected transaction leaves it unchanged, and the
// final consumption is the sum of the accepted transactions' units. Two dimensions are symbolic, the others idle.
func VerifC12Sequence() {
	n := verifParam("txs", 3, 4)
	m := NewManager(nil)
	var l fees.Dimensions
	for i := 0; i < fees.FeeDimensions; i++ {
		l[i] = consts.MaxUint64
	}
	da, db := fees.Dimension(0), fees.Dimension(1+verifChoose("second", fees.FeeDimensions-1))
	l[da], l[db] = verifU64("limit"), verifU64("limit")
	var acc fees.Dimensions // reference: sum of accepted units (cannot wrap: every accepted step is checked to fit)
	for t := 0; t < n; t++ {
		var u fees.Dimensions
		u[da], u[db] = verifU64("units"), verifU64("units")
		ok, _ := m.Consume(u, l)
		if ok {
			if c12over(acc[da], u[da], l[da]) {
				verifFail("sequence-accepted-over-limit")
			}
			if c12over(acc[db], u[db], l[db]) {
				verifFail("sequence-accepted-over-limit")
			}
			acc[da] += u[da]
			acc[db] += u[db]
			verifReach("accepted")
		} else {
			if !c12over(acc[da], u[da], l[da]) {
				if !c12over(acc[db], u[db], l[db]) {
					verifFail("sequence-rejected-although-fits")
				}
			}
			verifReach("rejected")
		}
		now := m.UnitsConsumed()
		for i := 0; i < fees.FeeDimensions; i++ {
			if now[i] != acc[i] {
				verifFail("sequence-consumption-not-sum-of-accepted")
			}
			if now[i] > l[i] {
				verifFail("sequence-limit-exceeded")
			}
		}
	}
	verifReach("end")
}
