package fees

import (
	"encoding/binary"
	"math/big"

	"github.com/ava-labs/hypersdk/consts"
	"github.com/ava-labs/hypersdk/fees"
	"github.com/ava-labs/hypersdk/internal/window"
)

var c13max = new(big.Int).SetUint64(18446744073709551615)

type c13Rules struct{ min, denom, target, maxBlock fees.Dimensions }

func (r *c13Rules) GetMinUnitPrice() fees.Dimensions               { return r.min }
func (r *c13Rules) GetUnitPriceChangeDenominator() fees.Dimensions { return r.denom }
func (r *c13Rules) GetWindowTargetUnits() fees.Dimensions          { return r.target }
func (r *c13Rules) GetMaxBlockUnits() fees.Dimensions              { return r.maxBlock }

func c13sat(x *big.Int) *big.Int {
	if x.Cmp(c13max) > 0 {
		return new(big.Int).Set(c13max)
	}
	return x
}

// c13spec: the statement's rule in exact arithmetic. slots = window before rolling (oldest first).
func c13spec(slots *[window.WindowSize]uint64, consumed, price, target, denom, minP, since uint64) uint64 {
	// roll by `since`, then add the parent's consumption into the slot it belongs to
	var rolled [window.WindowSize]*big.Int
	for i := 0; i < window.WindowSize; i++ {
		rolled[i] = new(big.Int)
		if since <= window.WindowSize {
			j := i + int(since)
			if j < window.WindowSize {
				rolled[i].SetUint64(slots[j])
			}
		}
	}
	if since < window.WindowSize {
		s := window.WindowSize - 1 - int(since)
		rolled[s] = c13sat(new(big.Int).Add(rolled[s], new(big.Int).SetUint64(consumed)))
	}
	total := new(big.Int)
	for i := 0; i < window.WindowSize; i++ {
		total.Add(total, rolled[i])
	}
	total = c13sat(total)
	T := new(big.Int).SetUint64(target)
	P := new(big.Int).SetUint64(price)
	next := new(big.Int).Set(P)
	c := total.Cmp(T)
	if c > 0 {
		x := new(big.Int).Mul(P, new(big.Int).Sub(total, T))
		x.Div(x, T)
		x.Div(x, new(big.Int).SetUint64(denom))
		if x.Sign() == 0 {
			x.SetUint64(1)
		}
		next = c13sat(next.Add(next, x))
	} else if c < 0 {
		x := new(big.Int).Mul(P, new(big.Int).Sub(T, total))
		x.Div(x, T)
		x.Div(x, new(big.Int).SetUint64(denom))
		if x.Sign() == 0 {
			x.SetUint64(1)
		}
		if since > window.WindowSize {
			x.Mul(x, new(big.Int).SetUint64(since/window.WindowSize))
		}
		next.Sub(next, x)
		if next.Sign() < 0 {
			next.SetUint64(0)
		}
	}
	if next.Cmp(new(big.Int).SetUint64(minP)) < 0 {
		next.SetUint64(minP)
	}
	return next.Uint64()
}

// c13manager builds a fee manager whose dimension-0 state is (price, slots, consumed) at time lastSec.
func c13manager(price uint64, slots *[window.WindowSize]uint64, consumed uint64, lastSec uint64) *Manager {
	m := NewManager(nil)
	binary.BigEndian.PutUint64(m.raw[0:consts.Int64Len], lastSec)
	m.SetUnitPrice(0, price)
	m.SetLastConsumed(0, consumed)
	start := consts.Int64Len + consts.Uint64Len
	for i := 0; i < window.WindowSize; i++ {
		binary.BigEndian.PutUint64(m.raw[start+8*i:start+8*i+8], slots[i])
	}
	return m
}

func c13since() uint64 {
	// 0..10 concrete seconds, or any value above the window size
	s := verifChoose("since", window.WindowSize+2)
	if s <= window.WindowSize {
		return uint64(s)
	}
	v := verifU64("sinceBig")
	verifAssume(v > window.WindowSize)
	verifAssume(v < 1<<40) // seconds between two blocks; keeps currTime (ms) inside int64
	return v
}

// VerifC13Exact: Manager.ComputeNext == the exact-arithmetic rule, next price >= min price; full 64-bit ranges.
func VerifC13Exact() {
	nsym := verifParam("symbolicWindowSlots", 2, 4)
	var slots [window.WindowSize]uint64
	for i := 0; i < nsym; i++ {
		slots[window.WindowSize-1-i] = verifU64("slot")
	}
	consumed := verifU64("consumed")
	price, target, denom, minP := verifU64("price"), verifU64("target"), verifU64("denom"), verifU64("min")
	verifAssume(target >= 1)
	verifAssume(denom >= 1)
	since := c13since()
	m := c13manager(price, &slots, consumed, 100)
	r := &c13Rules{}
	r.min[0], r.denom[0], r.target[0] = minP, denom, target
	for d := 1; d < fees.FeeDimensions; d++ {
		r.denom[d], r.target[d] = 1, 1
	}
	next := m.ComputeNext(int64((100+since)*1000), r)
	got := next.UnitPrice(0)
	want := c13spec(&slots, consumed, price, target, denom, minP, since)
	if got < minP {
		verifFail("below-min-price")
	}
	if got != want {
		verifFail("price-not-exact")
	}
	if next.LastConsumed(0) != 0 {
		verifFail("consumption-not-reset")
	}
	verifReach("end")
}

// VerifC13Mono: a higher window usage never yields a lower next price (two runs differing only in usage).
func VerifC13Mono() {
	var s1, s2 [window.WindowSize]uint64
	s1[window.WindowSize-1] = verifU64("slotA")
	s2[window.WindowSize-1] = verifU64("slotB")
	c1, c2 := verifU64("c1"), verifU64("c2")
	verifAssume(s1[window.WindowSize-1] <= s2[window.WindowSize-1])
	verifAssume(c1 <= c2)
	price, target, denom, minP := verifU64("price"), verifU64("target"), verifU64("denom"), verifU64("min")
	verifAssume(target >= 1)
	verifAssume(denom >= 1)
	since := c13since()
	r := &c13Rules{}
	r.min[0], r.denom[0], r.target[0] = minP, denom, target
	for d := 1; d < fees.FeeDimensions; d++ {
		r.denom[d], r.target[d] = 1, 1
	}
	n1 := c13manager(price, &s1, c1, 100).ComputeNext(int64((100+since)*1000), r).UnitPrice(0)
	n2 := c13manager(price, &s2, c2, 100).ComputeNext(int64((100+since)*1000), r).UnitPrice(0)
	if n2 < n1 {
		verifFail("higher-usage-lower-price")
	}
	verifReach("end")
}
