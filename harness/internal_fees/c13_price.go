package fees

import (
	"encoding/binary"
	"math/big"

	"github.com/ava-labs/hypersdk/consts"
	"github.com/ava-labs/hypersdk/fees"
	"github.com/ava-labs/hypersdk/internal/window"
)

var c13max = new(big.Int).SetUint64(18446744073709551615)

type c13Rules struct{ min, denom, target, maxBlock fees.Dimensions }

func (r *c13Rules) GetMinUnitPrice() fees.Dimensions               { return r.min }
func (r *c13Rules) GetUnitPriceChangeDenominator() fees.Dimensions { return r.denom }
func (r *c13Rules) GetWindowTargetUnits() fees.Dimensions          { return r.target }
func (r *c13Rules) GetMaxBlockUnits() fees.Dimensions              { return r.maxBlock }

func c13sat(x *big.Int) *big.Int {
	if x.Cmp(c13max) > 0 {
		return new(big.Int).Set(c13max)
	}
	return x
}

// c13manager builds a fee manager whose dimension-0 state is (price, slots, consumed) at time lastSec.
func c13manager(price uint64, slots *[window.WindowSize]uint64, consumed uint64, lastSec uint64) *Manager {
	m := NewManager(nil)
	binary.BigEndian.PutUint64(m.raw[0:consts.Int64Len], lastSec)
	m.SetUnitPrice(0, price)
	m.SetLastConsumed(0, consumed)
	start := consts.Int64Len + consts.Uint64Len
	for i := 0; i < window.WindowSize; i++ {
		binary.BigEndian.PutUint64(m.raw[start+8*i:start+8*i+8], slots[i])
	}
	return m
}

func c13since() uint64 {
	// 0..10 concrete seconds, or any value above the window size
	s := verifChoose("since", window.WindowSize+2)
	if s <= window.WindowSize {
		return uint64(s)
	}
	v := verifU64("sinceBig")
	verifAssume(v > window.WindowSize)
	verifAssume(v < 1<<40) // seconds between two blocks; keeps currTime (ms) inside int64
	return v
}

// c13total: the statement's window usage (saturating) after rolling `slots` by `since` and adding the parent's consumption.
func c13rolled(slots *[window.WindowSize]uint64, consumed, since uint64) (rolled [window.WindowSize]uint64) {
	for i := 0; i < window.WindowSize; i++ {
		if since <= window.WindowSize {
			j := i + int(since)
			if j < window.WindowSize {
				rolled[i] = slots[j]
			}
		}
	}
	if since < window.WindowSize {
		s := window.WindowSize - 1 - int(since)
		if rolled[s] > consts.MaxUint64-consumed {
			rolled[s] = consts.MaxUint64
		} else {
			rolled[s] += consumed
		}
	}
	return rolled
}

// VerifC13Window (linear part): for every elapsed time the rolled window returned by computeNextPriceWindow and its
// saturating sum are exactly the statement's (oldest slots dropped, parent consumption added to the slot it belongs to).
func VerifC13Window() {
	nsym := verifParam("symbolicWindowSlots", 3, 10)
	var slots [window.WindowSize]uint64
	var w window.Window
	for i := 0; i < nsym; i++ {
		k := window.WindowSize - 1 - i
		if i == nsym-1 {
			k = 0 // the oldest slot is always among the symbolic ones
		}
		slots[k] = verifU64("slot")
		binary.BigEndian.PutUint64(w[8*k:], slots[k])
	}
	consumed := verifU64("consumed")
	since := c13since()
	_, nw := computeNextPriceWindow(w, consumed, 1, 1, 1, 0, since)
	want := c13rolled(&slots, consumed, since)
	sum := uint64(0)
	sat := false
	for i := 0; i < window.WindowSize; i++ {
		if binary.BigEndian.Uint64(nw[8*i:]) != want[i] {
			verifFail("rolled-window-wrong")
		}
		if !sat {
			if sum > consts.MaxUint64-want[i] {
				sat = true
				sum = consts.MaxUint64
				verifReach("sum-saturates")
			} else {
				sum += want[i]
			}
		}
	}
	if window.Sum(nw) != sum {
		verifFail("window-sum-wrong")
	}
	verifReach("end")
}

// c13price: the statement's price rule in exact arithmetic from the window usage `total`.
func c13price(total, price, target, denom, minP, since uint64) uint64 {
	T := new(big.Int).SetUint64(target)
	P := new(big.Int).SetUint64(price)
	next := new(big.Int).Set(P)
	if total > target {
		x := new(big.Int).Mul(P, new(big.Int).SetUint64(total-target))
		x.Div(x, T)
		x.Div(x, new(big.Int).SetUint64(denom))
		if x.Sign() == 0 {
			x.SetUint64(1)
		}
		next = c13sat(next.Add(next, x))
	} else if total < target {
		x := new(big.Int).Mul(P, new(big.Int).SetUint64(target-total))
		x.Div(x, T)
		x.Div(x, new(big.Int).SetUint64(denom))
		if x.Sign() == 0 {
			x.SetUint64(1)
		}
		if since > window.WindowSize {
			x.Mul(x, new(big.Int).SetUint64(since/window.WindowSize))
		}
		next.Sub(next, x)
		if next.Sign() < 0 {
			next.SetUint64(0)
		}
	}
	if next.Cmp(new(big.Int).SetUint64(minP)) < 0 {
		next.SetUint64(minP)
	}
	return next.Uint64()
}

// c13sinceRep: elapsed seconds — representatives of "within the window" and of idle periods (multiplier since/10 = 1, 2,
// 100); the thorough tier adds 0, 10 and a fully symbolic idle period.
func c13sinceRep() uint64 {
	var since uint64
	switch k := verifChoose("sinceKind", verifParam("sinceKinds", 4, 7)); k {
	case 0:
		since = 1
	case 1:
		since = 11
		verifReach("idle-decay")
	case 2:
		since = 25
	case 3:
		since = 1000
	case 4:
		since = 0
	case 5:
		since = window.WindowSize
	case 6:
		since = verifU64("sinceBig")
		verifAssume(since > window.WindowSize)
		verifAssume(since < 1<<40)
	}
	return since
}

// VerifC13Exact: Manager.ComputeNext == the exact-arithmetic price rule applied to the window usage, next price >= min
// price; price, usage, target, denominator, minimum over the full 64-bit range.
func VerifC13Exact() {
	var slots [window.WindowSize]uint64
	slots[window.WindowSize-1] = verifU64("slot")
	consumed := verifU64("consumed")
	price, target, denom, minP := verifU64("price"), verifU64("target"), verifU64("denom"), verifU64("min")
	verifAssume(target >= 1)
	verifAssume(denom >= 1)
	since := c13sinceRep()
	m := c13manager(price, &slots, consumed, 100)
	r := &c13Rules{}
	r.min[0], r.denom[0], r.target[0] = minP, denom, target
	for d := 1; d < fees.FeeDimensions; d++ {
		r.denom[d], r.target[d] = 1, 0 // usage 0 == target 0: the other dimensions keep their price (no arithmetic)
	}
	next := m.ComputeNext(int64((100+since)*1000), r)
	got := next.UnitPrice(0)
	rolled := c13rolled(&slots, consumed, since)
	total := uint64(0)
	for i := 0; i < window.WindowSize; i++ {
		if total > consts.MaxUint64-rolled[i] {
			total = consts.MaxUint64
			break
		}
		total += rolled[i]
	}
	want := c13price(total, price, target, denom, minP, since)
	if got < minP {
		verifFail("below-min-price")
	}
	if got != want {
		verifFail("price-not-exact")
	}
	if next.LastConsumed(0) != 0 {
		verifFail("consumption-not-reset")
	}
	verifReach("end")
}

// VerifC13Mono: a higher window usage never yields a lower next price (two runs differing only in usage).
func VerifC13Mono() {
	var s1, s2 [window.WindowSize]uint64
	s1[window.WindowSize-1] = verifU64("slotA")
	s2[window.WindowSize-1] = verifU64("slotB")
	c1, c2 := verifU64("c1"), verifU64("c2")
	verifAssume(s1[window.WindowSize-1] <= s2[window.WindowSize-1])
	verifAssume(c1 <= c2)
	price, target, denom, minP := verifU64("price"), verifU64("target"), verifU64("denom"), verifU64("min")
	verifAssume(target >= 1)
	verifAssume(denom >= 1)
	since := c13sinceRep()
	r := &c13Rules{}
	r.min[0], r.denom[0], r.target[0] = minP, denom, target
	for d := 1; d < fees.FeeDimensions; d++ {
		r.denom[d], r.target[d] = 1, 0 // usage 0 == target 0: the other dimensions keep their price (no arithmetic)
	}
	n1 := c13manager(price, &s1, c1, 100).ComputeNext(int64((100+since)*1000), r).UnitPrice(0)
	n2 := c13manager(price, &s2, c2, 100).ComputeNext(int64((100+since)*1000), r).UnitPrice(0)
	if n2 < n1 {
		verifFail("higher-usage-lower-price")
	}
	verifReach("end")
}
