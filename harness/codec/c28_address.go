package codec

import (
	"encoding/hex"

	"github.com/ava-labs/avalanchego/utils/hashing"
)

var c28lens = []int{0, 33, 32, 34, 1, 4, 29, 37, 66}

// c28digit classifies one character without using encoding/hex: (value, isHexDigit).
func c28digit(c byte) (byte, bool) {
	if c-'0' < 10 {
		return c - '0', true
	}
	if c-'a' < 6 {
		return c - 'a' + 10, true
	}
	if c-'A' < 6 {
		return c - 'A' + 10, true
	}
	return 0, false
}

// VerifC28Parse: text = hex(payload) with one character optionally replaced by an arbitrary byte, followed by the
// (real) checksum of what that text decodes to (optionally corrupted), optional "0x", optional trailing character.
// It is accepted exactly when every character is a hex digit, the payload is exactly AddressLen bytes, nothing
// trails and the checksum is intact; the parsed address is the decoded payload.
func VerifC28Parse() {
	n := c28lens[verifChoose("payloadLen", verifParam("payloadLens", 5, len(c28lens)))]
	payload := verifBytes("p", n)
	chars := []byte(hex.EncodeToString(payload))
	allHex := true
	if n > 0 {
		if verifChoose("replaceChar", 2) == 1 {
			pos := []int{0, 2*n - 1, n}[verifChoose("replaceAt", 3)]
			c := verifU8("char")
			if pos == 1 {
				verifAssume(c != 'x') // "0x" at the start would be read as the optional prefix, i.e. a different text
			}
			chars[pos] = c
			v, ok := c28digit(c)
			if !ok {
				allHex = false
				verifReach("non-hex-char")
			} else if pos%2 == 0 {
				payload[pos/2] = payload[pos/2]&0x0f | v<<4
			} else {
				payload[pos/2] = payload[pos/2]&0xf0 | v
			}
		}
	}
	sum := append([]byte{}, hashing.Checksum(payload, checksumLen)...)
	corrupt := verifChoose("corruptChecksum", 2) == 1
	if corrupt {
		x := verifU8("flip")
		verifAssume(x != 0)
		sum[verifChoose("flipAt", checksumLen)] ^= x
	}
	s := ""
	if verifChoose("prefix0x", 2) == 1 {
		s = "0x"
	}
	s += string(chars) + hex.EncodeToString(sum)
	odd := verifChoose("trailingChar", 2) == 1
	if odd {
		s += string([]byte{verifU8("extra")})
	}
	var a Address
	err := a.UnmarshalText([]byte(s))
	b, err2 := StringToAddress(s)
	if (err == nil) != (err2 == nil) {
		verifFail("unmarshaltext-and-stringtoaddress-disagree")
	}
	if err != nil {
		if allHex {
			if !corrupt {
				if !odd {
					if n == AddressLen {
						verifFail("valid-address-text-rejected")
					}
				}
			}
		}
		verifReach("rejected")
		verifReach("end")
		return
	}
	verifReach("accepted")
	if odd {
		verifFail("odd-length-accepted")
	}
	if !allHex {
		verifFail("non-hex-accepted")
	}
	if corrupt {
		verifFail("bad-checksum-accepted")
	}
	if n != AddressLen {
		verifFail("wrong-length-accepted")
	}
	for i := 0; i < AddressLen; i++ {
		if a[i] != payload[i] {
			verifFail("parsed-address-differs-from-payload")
		}
		if b[i] != a[i] {
			verifFail("unmarshaltext-and-stringtoaddress-disagree")
		}
	}
	verifReach("end")
}

// VerifC28RoundTrip: every address formats to a string that parses back to the same address (String and MarshalText).
func VerifC28RoundTrip() {
	var a Address
	for i := range a {
		a[i] = verifU8("a")
	}
	s := a.String()
	mt, err := a.MarshalText()
	if err != nil {
		verifFail("marshaltext-error")
	}
	if string(mt) != s {
		verifFail("marshaltext-differs-from-string")
	}
	if len(s) != 2+2*(AddressLen+checksumLen) {
		verifFail("formatted-length")
	}
	b, err := StringToAddress(s)
	if err != nil {
		verifFail("roundtrip-rejected")
	}
	for i := range a {
		if a[i] != b[i] {
			verifFail("roundtrip-value")
		}
	}
	verifReach("end")
}
