package mempool

import (
	"context"

	"github.com/ava-labs/avalanchego/ids"
	"github.com/ava-labs/avalanchego/trace"

	"github.com/ava-labs/hypersdk/codec"
)

type c23Item struct {
	id  ids.ID
	exp int64
	sp  codec.Address
	sz  int
}

func (v *c23Item) GetID() ids.ID             { return v.id }
func (v *c23Item) GetExpiry() int64          { return v.exp }
func (v *c23Item) GetSponsor() codec.Address { return v.sp }
func (v *c23Item) Size() int                 { return v.sz }

const c23K = 4

// c23limits: (item limit, per-sponsor limit) configurations: limit 1, sponsor limit == item limit, sponsor limit below.
var c23limits = [5][2]int{{2, 2}, {1, 1}, {2, 1}, {3, 2}, {3, 3}}

// c23model is the reference: which items of the universe are held, and their hand-out rank. Items that arrived through
// Add get increasing ranks (arrival order); all items given back by one FinishStreaming call share one rank that is
// below every rank handed out before (the property does not order given-back items among themselves).
type c23model struct {
	m        *Mempool[*c23Item]
	ctx      context.Context
	nitems   int
	maxSize  int
	maxSp    int
	items    [c23K]*c23Item
	used     int // items 0..used-1 have been named by an operation (first-use order: items are interchangeable)
	held     [c23K]bool
	rank     [c23K]int
	arrival  int
	giveback int
	// streaming state
	streaming bool
	streamed  [c23K]bool // handed out during the current stream (returned by Stream or prefetched by PrepareStream)
	received  [c23K]bool // returned by Stream during the current stream
	fetched   bool       // a PrepareStream result is outstanding
	prefetch  [c23K]bool
}

func c23new(nitems, cfgs int) *c23model {
	c := &c23model{ctx: context.Background(), nitems: nitems}
	lim := c23limits[verifChoose("limits", cfgs)]
	c.maxSize, c.maxSp = lim[0], lim[1]
	c.m = New[*c23Item](trace.Noop, c.maxSize, c.maxSp)
	return c
}

// item k of the universe: distinct ID, symbolic size and expiry, one of two sponsors (the first item's sponsor is
// sponsor 0 without loss of generality).
func (c *c23model) item(k int) *c23Item {
	if c.items[k] == nil {
		s := 0
		if k > 0 {
			s = verifChoose("sponsor", 2)
		}
		c.items[k] = &c23Item{id: ids.ID{byte(k + 1), 0x23}, exp: verifI64("exp"), sp: codec.Address{1, byte(s)}, sz: int(verifU16("size"))}
	}
	return c.items[k]
}

func (c *c23model) pick(tag string) int {
	lim := c.used + 1
	if lim > c.nitems {
		lim = c.nitems
	}
	k := verifChoose(tag, lim)
	if k == c.used {
		c.used++
	}
	c.item(k)
	return k
}

func (c *c23model) count() int {
	n := 0
	for i := 0; i < c23K; i++ {
		if c.held[i] {
			n++
		}
	}
	return n
}

func (c *c23model) sponsorCount(sp codec.Address) int {
	n := 0
	for i := 0; i < c23K; i++ {
		if c.held[i] && c.items[i].sp == sp {
			n++
		}
	}
	return n
}

func (c *c23model) index(it *c23Item, where string) int {
	if it == nil {
		verifFail(where + "-returned-nil-item")
	}
	k := int(it.id[0]) - 1
	if k < 0 || k >= c23K || c.items[k] != it {
		verifFail(where + "-returned-unknown-item")
	}
	return k
}

// handOut: item k is held and no held item is ahead of it.
func (c *c23model) handOut(k int, where string) {
	if !c.held[k] {
		verifFail(where + "-item-not-held")
	}
	for j := 0; j < c23K; j++ {
		if c.held[j] && c.rank[j] < c.rank[k] {
			verifFail(where + "-out-of-order")
		}
	}
}

func (c *c23model) opAdd(k int) {
	it := c.item(k)
	before := c.held[k]
	c.m.Add(c.ctx, []*c23Item{it})
	after := c.m.Has(c.ctx, it.id)
	if before {
		if !after {
			verifFail("add-dropped-held-item")
		}
		return
	}
	if c.streaming && c.streamed[k] {
		if after {
			verifFail("streamed-item-re-added")
		}
		verifReach("re-add-blocked")
		return
	}
	if c.count() >= c.maxSize || c.sponsorCount(it.sp) >= c.maxSp {
		if after {
			verifFail("add-exceeds-limit")
		}
		verifReach("add-refused")
		return
	}
	if !after {
		verifFail("add-refused-with-room")
	}
	c.held[k] = true
	c.arrival++
	c.rank[k] = c.arrival
}

func (c *c23model) opRemove(k int) {
	it := c.item(k)
	c.m.Remove(c.ctx, []*c23Item{it})
	c.held[k] = false
}

func (c *c23model) opSetMin() {
	t := verifI64("min")
	out := c.m.SetMinTimestamp(c.ctx, t)
	for _, r := range out {
		k := c.index(r, "setmin")
		if !c.held[k] {
			verifFail("setmin-returned-item-not-held")
		}
		if r.exp >= t {
			verifFail("setmin-returned-unexpired")
		}
		c.held[k] = false
		verifReach("expired")
	}
	for i := 0; i < c23K; i++ {
		if c.held[i] {
			if c.items[i].exp < t {
				verifFail("setmin-kept-expired")
			}
		}
	}
}

func (c *c23model) opPop() {
	got, ok := c.m.PopNext(c.ctx)
	if ok != (c.count() > 0) {
		verifFail("pop-ok-wrong")
	}
	if ok {
		k := c.index(got, "pop")
		c.handOut(k, "pop")
		c.held[k] = false
	}
}

func (c *c23model) opStart() {
	c.m.StartStreaming(c.ctx)
	c.streaming = true
}

func (c *c23model) opStream(count int) {
	out := c.m.Stream(c.ctx, count)
	if c.fetched {
		// the outstanding prefetch is delivered: exactly those items, in hand-out order
		n := 0
		for i := 0; i < c23K; i++ {
			if c.prefetch[i] {
				n++
			}
		}
		if len(out) != n {
			verifFail("stream-prefetch-count")
		}
		last := 0
		for a, r := range out {
			k := c.index(r, "stream")
			if !c.prefetch[k] {
				verifFail("stream-not-the-prefetched-items")
			}
			if c.received[k] {
				verifFail("handed-out-twice")
			}
			if a > 0 && c.rank[k] < last {
				verifFail("stream-out-of-order")
			}
			last = c.rank[k]
			c.received[k] = true
			c.prefetch[k] = false
		}
		c.fetched = false
		verifReach("prefetch-delivered")
		return
	}
	want := c.count()
	if want > count {
		want = count
	}
	if len(out) != want {
		verifFail("stream-count")
	}
	for _, r := range out {
		k := c.index(r, "stream")
		if c.streamed[k] {
			verifFail("handed-out-twice")
		}
		c.handOut(k, "stream")
		c.held[k] = false
		c.streamed[k], c.received[k] = true, true
	}
}

func (c *c23model) opPrepare(count int) {
	want := c.count()
	if want > count {
		want = count
	}
	c.m.PrepareStream(c.ctx, count)
	n := 0
	for i := 0; i < c.nitems; i++ {
		if c.items[i] == nil {
			continue
		}
		now := c.m.Has(c.ctx, c.items[i].id)
		if now && !c.held[i] {
			verifFail("prepare-added-item")
		}
		if !now && c.held[i] {
			if c.streamed[i] {
				verifFail("handed-out-twice")
			}
			c.prefetch[i] = true
			n++
		}
	}
	if n != want {
		verifFail("prepare-count")
	}
	for i := 0; i < c23K; i++ {
		if c.prefetch[i] {
			for j := 0; j < c23K; j++ {
				if c.held[j] && !c.prefetch[j] && c.rank[j] < c.rank[i] {
					verifFail("prepare-out-of-order")
				}
			}
		}
	}
	for i := 0; i < c23K; i++ {
		if c.prefetch[i] {
			c.held[i] = false
			c.streamed[i] = true
		}
	}
	c.fetched = true
}

// opFinish: FinishStreaming with any subset of the items received from Stream as restorable.
func (c *c23model) opFinish() {
	var cand [c23K]bool
	var restorable []*c23Item
	for i := 0; i < c23K; i++ {
		if c.received[i] {
			if verifChoose("restore", 2) == 1 {
				cand[i] = true
				restorable = append(restorable, c.items[i])
			}
		}
		if c.fetched && c.prefetch[i] {
			cand[i] = true
		}
	}
	c.m.FinishStreaming(c.ctx, restorable)
	c.giveback--
	var now [c23K]bool
	for i := 0; i < c.nitems; i++ {
		if c.items[i] != nil {
			now[i] = c.m.Has(c.ctx, c.items[i].id)
		}
	}
	for i := 0; i < c23K; i++ {
		if !cand[i] {
			if now[i] != c.held[i] {
				verifFail("finish-changed-other-item")
			}
			continue
		}
		if now[i] {
			c.held[i] = true
			c.rank[i] = c.giveback
			verifReach("given-back")
		}
	}
	for i := 0; i < c23K; i++ {
		if cand[i] && !now[i] {
			// not taken back: only because a limit is reached (the counts only grow during the call)
			if c.count() < c.maxSize && c.sponsorCount(c.items[i].sp) < c.maxSp {
				verifFail("give-back-refused-with-room")
			}
			verifReach("give-back-refused")
		}
	}
	c.streaming, c.fetched = false, false
	c.streamed, c.received, c.prefetch = [c23K]bool{}, [c23K]bool{}, [c23K]bool{}
}

// check: the observable state after every operation.
func (c *c23model) check() {
	n := c.count()
	if n > c.maxSize {
		verifFail("item-limit-exceeded")
	}
	if c.m.Len(c.ctx) != n {
		verifFail("len-wrong")
	}
	sum := 0
	for i := 0; i < c.nitems; i++ {
		if c.items[i] == nil {
			continue
		}
		if c.m.Has(c.ctx, c.items[i].id) != c.held[i] {
			verifFail("has-wrong")
		}
		if c.held[i] {
			sum += c.items[i].sz
			if c.sponsorCount(c.items[i].sp) > c.maxSp {
				verifFail("sponsor-limit-exceeded")
			}
		}
	}
	if c.m.Size(c.ctx) != sum {
		verifFail("size-wrong")
	}
	pk, ok := c.m.PeekNext(c.ctx)
	if ok != (n > 0) {
		verifFail("peek-ok-wrong")
	}
	if ok {
		c.handOut(c.index(pk, "peek"), "peek")
	}
}

// drain pops everything: the complete hand-out order of the final state.
func (c *c23model) drain() {
	for c.count() > 0 {
		c.opPop()
		c.check()
	}
	if _, ok := c.m.PopNext(c.ctx); ok {
		verifFail("pop-from-empty")
	}
}

// VerifC23History: every history of add / remove / expire / pop.
func VerifC23History() {
	maxOps := verifParam("maxOps", 4, 5)
	c := c23new(verifParam("items", 3, 4), verifParam("limitConfigs", 4, 5))
	n := 1 + verifChoose("n", maxOps)
	for step := 0; step < n; step++ {
		switch verifChoose("op", 4) {
		case 0:
			c.opAdd(c.pick("additem"))
		case 1:
			c.opRemove(c.pick("rmitem"))
		case 2:
			c.opSetMin()
		case 3:
			c.opPop()
		}
		c.check()
	}
	c.drain()
	verifReach("end")
}

// c23streamCfg: (item limit, sponsor limit, stream batch size) configurations of the streaming harness.
var c23streamCfg = [6][3]int{{2, 2, 1}, {2, 2, 2}, {1, 1, 1}, {3, 2, 2}, {2, 1, 1}, {3, 3, 1}}

// VerifC23Stream: `setup` items are added, a stream is started, then every history of stream / prepare / finish (and a
// new start) interleaved with add / expire (quick) and remove / pop (thorough) from other callers, following the
// builder's protocol; finally the stream is finished and everything is popped.
func VerifC23Stream() {
	maxOps := verifParam("maxOps", 3, 4)
	nitems := verifParam("items", 3, 4)
	nops := verifParam("streamOps", 5, 7)
	c := &c23model{ctx: context.Background(), nitems: nitems}
	cfg := c23streamCfg[verifChoose("config", verifParam("configs", 5, 6))]
	c.maxSize, c.maxSp = cfg[0], cfg[1]
	batch := cfg[2]
	c.m = New[*c23Item](trace.Noop, c.maxSize, c.maxSp)
	setup := verifParam("setupMin", 2, 1) + verifChoose("setup", verifParam("setupChoices", 1, 3))
	for i := 0; i < setup; i++ {
		c.used = i + 1
		c.opAdd(i)
		c.check()
	}
	c.opStart()
	n := maxOps
	for step := 0; step < n; step++ {
		switch verifChoose("op", nops) {
		case 0:
			c.opAdd(c.pick("additem"))
		case 1:
			c.opSetMin()
		case 2:
			if c.streaming {
				c.opStream(batch)
			} else {
				c.opStart()
			}
		case 3:
			verifAssume(c.streaming)
			verifAssume(!c.fetched) // at most one outstanding PrepareStream
			c.opPrepare(batch)
		case 4:
			verifAssume(c.streaming)
			c.opFinish()
		case 5:
			c.opRemove(c.pick("rmitem"))
		case 6:
			c.opPop()
		}
		c.check()
	}
	if c.streaming {
		c.opFinish()
		c.check()
	}
	c.drain()
	verifReach("end")
}
