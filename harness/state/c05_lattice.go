package state

// VerifC05Lattice: the permission lattice. Has(p, require) holds exactly when every bit of `require` is granted by p,
// for all 256 x 256 byte values; declaring the same key several times (several actions, the sponsor) grants the union;
// a key too short to carry a size suffix never enters a key set; a key that was never declared grants nothing.
func VerifC05Lattice() {
	p, q, r := Permissions(verifU8("p")), Permissions(verifU8("q")), Permissions(verifU8("require"))
	// bit-by-bit statement of "p grants everything in r"
	missing := uint8(0)
	missingU := uint8(0)
	for i := uint(0); i < 8; i++ {
		need := (uint8(r) >> i) & 1
		missing |= need &^ ((uint8(p) >> i) & 1)
		missingU |= need &^ (((uint8(p) >> i) | (uint8(q) >> i)) & 1)
	}
	if p.Has(r) != (missing == 0) {
		verifFail("has-disagrees-with-bitwise-subset")
	}
	// the named permissions: allocate and write both include read; All includes all three; read alone cannot modify
	if !Allocate.Has(Read) {
		verifFail("allocate-does-not-imply-read")
	}
	if !Write.Has(Read) {
		verifFail("write-does-not-imply-read")
	}
	if !All.Has(Allocate | Write) {
		verifFail("all-incomplete")
	}
	if Read.Has(Write) {
		verifFail("read-grants-write")
	}
	if Read.Has(Allocate) {
		verifFail("read-grants-allocate")
	}
	if Write.Has(Allocate) {
		verifFail("write-grants-allocate")
	}
	if Allocate.Has(Write) {
		verifFail("allocate-grants-write")
	}
	if None.Has(Read) {
		verifFail("none-grants-read")
	}

	// union of duplicate declarations; the twin key differs only in its size suffix
	key, twin := string([]byte{7, 0, 1}), []byte{7, 0, 2}
	k := Keys{}
	if !k.Add(key, p) {
		verifFail("well-formed-key-refused")
	}
	if !k.Add(key, q) {
		verifFail("well-formed-key-refused")
	}
	if k.Has([]byte(key), r) != (missingU == 0) {
		verifFail("duplicate-declarations-not-unioned")
	}
	if r != None {
		if k.Has(twin, r) {
			verifFail("undeclared-size-twin-granted")
		}
		verifReach("nonzero-require")
	}
	if len(k) != 1 {
		verifFail("duplicate-declaration-made-second-entry")
	}
	// malformed keys (shorter than the 2-byte size suffix) are refused and leave the set unchanged
	if k.Add("a", p) {
		verifFail("short-key-added")
	}
	if k.Add("", p) {
		verifFail("short-key-added")
	}
	if len(k) != 1 {
		verifFail("short-key-added")
	}
	verifReach("end")
}
