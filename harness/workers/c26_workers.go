package workers

import "errors"

var errC26 = errors.New("harness: task failed")

const c26MaxTasks = 3

type c26job struct {
	j      Job
	pj     *ParallelJob
	nt     int
	fail   [c26MaxTasks]bool
	ran    [c26MaxTasks]int
	failed bool // some task that actually ran returned an error
	any    bool // some task is configured to fail
}

// VerifC26Parallel: the real ParallelWorkers pool with 1..2 workers runs 1..2 jobs of 0..maxTasks tasks with symbolic
// failure bits under every schedule (preemption-bounded); Stop is called either after all results were collected or
// while jobs may still be queued.
func VerifC26Parallel() {
	nw := 1 + verifChoose("workers", 2)
	maxTasks := verifParam("maxTasks", 2, c26MaxTasks)
	w := NewParallel(nw, 2).(*ParallelWorkers)
	njobs := 1 + verifChoose("jobs", verifParam("maxJobs", 2, 2))
	var jobs [2]*c26job
	for k := 0; k < njobs; k++ {
		j, err := w.NewJob(c26MaxTasks)
		if err != nil {
			verifFail("newjob-error-before-stop")
		}
		jobs[k] = &c26job{j: j, pj: j.(*ParallelJob), nt: verifChoose("tasks", maxTasks+1)}
	}
	for k := 0; k < njobs; k++ {
		jb := jobs[k]
		k := k
		for i := 0; i < jb.nt; i++ {
			i := i
			jb.fail[i] = verifChoose("fail", 2) == 1
			if jb.fail[i] {
				jb.any = true
			}
			jb.j.Go(func() error {
				jb.ran[i]++
				if k == 1 {
					// the previous job must have completed before any task of this one starts
					select {
					case <-jobs[0].pj.completed:
					default:
						verifFail("next-job-started-before-previous-completed")
					}
				}
				if jb.fail[i] {
					jb.failed = true
					return errC26
				}
				return nil
			})
		}
		jb.j.Done(nil)
	}
	stopEarly := verifChoose("stopBeforeWait", 2) == 1
	if stopEarly {
		w.Stop()
		verifReach("stopped-with-jobs-outstanding")
	}
	for k := 0; k < njobs; k++ {
		jb := jobs[k]
		res := jb.j.Wait()
		executed := 0
		for i := 0; i < jb.nt; i++ {
			if jb.ran[i] > 1 {
				verifFail("task-ran-twice")
			}
			executed += jb.ran[i]
		}
		if errors.Is(res, ErrShutdown) {
			if !stopEarly {
				verifFail("shutdown-reported-without-stop")
			}
			if executed != 0 {
				verifFail("shutdown-reported-but-tasks-ran")
			}
			verifReach("pending-job-reports-shutdown")
			continue
		}
		if (res != nil) != jb.failed {
			if res == nil {
				verifFail("failure-not-reported")
			}
			verifFail("error-reported-without-failed-task")
		}
		if !jb.any {
			if executed != jb.nt {
				verifFail("task-not-run-although-none-failed")
			}
		}
		if jb.failed {
			verifReach("job-failed")
		}
	}
	if !stopEarly {
		w.Stop()
	}
	if _, err := w.NewJob(1); !errors.Is(err, ErrShutdown) {
		verifFail("job-accepted-after-stop")
	}
	verifReach("end")
}

// VerifC26Backlog: the job backlog is full. A pool with a job backlog of 0..1 gets 2..3 jobs, each submitted completely
// (NewJob, tasks, Done) before the next NewJob — so NewJob has to wait for a slot while an earlier job is in flight —
// then all are waited for and the pool is stopped. Every job must complete (no schedule hangs) with the usual verdicts.
func VerifC26Backlog() {
	nw := 1 + verifChoose("workers", 2)
	backlog := verifChoose("jobBacklog", 2)
	w := NewParallel(nw, backlog).(*ParallelWorkers)
	njobs := 2 + verifChoose("jobs", verifParam("backlogExtraJobs", 1, 2))
	var jobs [3]*c26job
	for k := 0; k < njobs; k++ {
		j, err := w.NewJob(c26MaxTasks)
		if err != nil {
			verifFail("newjob-error-before-stop")
		}
		jb := &c26job{j: j, pj: j.(*ParallelJob), nt: 1 + verifChoose("tasks", 2)}
		jobs[k] = jb
		k := k
		for i := 0; i < jb.nt; i++ {
			i := i
			jb.fail[i] = verifChoose("fail", 2) == 1
			if jb.fail[i] {
				jb.any = true
			}
			jb.j.Go(func() error {
				jb.ran[i]++
				if k >= 1 {
					select {
					case <-jobs[k-1].pj.completed:
					default:
						verifFail("next-job-started-before-previous-completed")
					}
				}
				if jb.fail[i] {
					jb.failed = true
					return errC26
				}
				return nil
			})
		}
		jb.j.Done(nil)
	}
	verifReach("all-jobs-submitted")
	for k := 0; k < njobs; k++ {
		jb := jobs[k]
		res := jb.j.Wait()
		executed := 0
		for i := 0; i < jb.nt; i++ {
			if jb.ran[i] > 1 {
				verifFail("task-ran-twice")
			}
			executed += jb.ran[i]
		}
		if (res != nil) != jb.failed {
			if res == nil {
				verifFail("failure-not-reported")
			}
			verifFail("error-reported-without-failed-task")
		}
		if !jb.any {
			if executed != jb.nt {
				verifFail("task-not-run-although-none-failed")
			}
		}
	}
	w.Stop()
	if _, err := w.NewJob(1); !errors.Is(err, ErrShutdown) {
		verifFail("job-accepted-after-stop")
	}
	verifReach("end")
}

// VerifC26Serial: the serial implementation of the same interface: all tasks run in order until the first failure,
// which is what Wait reports.
func VerifC26Serial() {
	w := NewSerial()
	j, err := w.NewJob(c26MaxTasks)
	if err != nil {
		verifFail("newjob-error")
	}
	nt := verifChoose("tasks", c26MaxTasks+1)
	var ran [c26MaxTasks]int
	first := -1
	for i := 0; i < nt; i++ {
		i := i
		fail := verifChoose("fail", 2) == 1
		if fail {
			if first < 0 {
				first = i
			}
		}
		j.Go(func() error {
			ran[i]++
			if fail {
				return errC26
			}
			return nil
		})
	}
	j.Done(nil)
	res := j.Wait()
	if (res != nil) != (first >= 0) {
		verifFail("serial-wait-result")
	}
	for i := 0; i < nt; i++ {
		if ran[i] > 1 {
			verifFail("serial-task-ran-twice")
		}
		if first < 0 {
			if ran[i] != 1 {
				verifFail("serial-task-not-run")
			}
		}
	}
	w.Stop()
	verifReach("end")
}
