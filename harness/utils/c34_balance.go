package utils

const c34Decimals = 9 // consts.Decimals
const c34Unit = 1_000_000_000
const c34MaxU64 = ^uint64(0)

// c34vectors: concrete balances for the regression harness (runs on float code too: the engine executes concrete
// float64 arithmetic and strconv.FormatFloat/ParseFloat, but has no floating-point theory for symbolic values).
var c34vectors = [...]uint64{
	0, 1, 999_999_999, 1_000_000_000, 1_500_000_000,
	1_016_651, // 0.001016651 is not representable: a float implementation parses it back as 1016650
	1<<53 + 1, // first integer a float64 cannot hold
	123_456_789_012_345_678,
	// balances below 2^53 whose quotient by 10^9 is not exact in float64 (spacing of doubles above 2^23 tokens exceeds
	// one base unit): a float "fast path" for exactly representable balances still prints a wrong last digit here
	8_388_608_000_000_001, 8_388_608_000_000_003, 9_000_000_000_000_001, 1<<53 - 1, 1<<52 + 1, 4_503_599_627_370_497,
	1_000_000_000_000_001, 9_999_999_999_999_999, 7_036_874_417_766_399,
	c34MaxU64 - 1, c34MaxU64, // float64(MaxUint64) == 2^64: the conversion back to uint64 is out of range
}

// VerifC34Vectors: format-then-parse on the concrete regression balances.
func VerifC34Vectors() {
	b := c34vectors[verifChoose("vector", len(c34vectors))]
	s := FormatBalance(b)
	got, err := ParseBalance(s)
	if err != nil {
		verifFail("vector-roundtrip-parse-error")
	}
	if got != b {
		verifFail("vector-roundtrip-value-differs")
	}
	verifReach("end")
}

// VerifC34RoundTrip: ParseBalance(FormatBalance(b)) == b for every 64-bit balance, and the formatted text is
// "<integer part>.<exactly nine fractional digits>".
func VerifC34RoundTrip() {
	b := verifU64("balance")
	s := FormatBalance(b)
	n := len(s)
	if n < c34Decimals+2 {
		verifFail("format-too-short")
	}
	if s[n-c34Decimals-1] != '.' {
		verifFail("format-no-decimal-point")
	}
	// the text denotes b: integer part and the nine fractional digits
	ip, fp := uint64(0), uint64(0)
	for i := 0; i < n-c34Decimals-1; i++ {
		d := s[i] - '0'
		if d > 9 {
			verifFail("format-non-digit")
		}
		ip = ip*10 + uint64(d) // at most 11 digits
	}
	for i := n - c34Decimals; i < n; i++ {
		d := s[i] - '0'
		if d > 9 {
			verifFail("format-non-digit")
		}
		fp = fp*10 + uint64(d)
	}
	if n-c34Decimals-1 > 11 {
		verifFail("format-integer-part-too-long")
	}
	if ip != b/c34Unit {
		verifFail("format-wrong-integer-part")
	}
	if fp != b%c34Unit {
		verifFail("format-wrong-fraction")
	}
	got, err := ParseBalance(s)
	if err != nil {
		verifFail("roundtrip-parse-error")
	}
	if got != b {
		verifFail("roundtrip-value-differs")
	}
	verifReach("end")
}

// c34digits returns n symbolic decimal digits as text and their value.
func c34digits(tag string, n int) (string, uint64) {
	raw := verifBytes(tag, n)
	v := uint64(0)
	for i := range raw {
		verifAssume(raw[i] <= 9)
		v = v*10 + uint64(raw[i]) // n <= 12: no overflow
		raw[i] += '0'
	}
	return string(raw), v
}

var c34intLens = [...]int{1, 0, 11, 10, 12, 2, 3, 4, 5, 6, 7, 8, 9}

// VerifC34Parse: every decimal string "<i digits>[.<f digits>]" with f <= 9 whose value is within range parses to
// exactly integer*10^9 + fraction*10^(9-f).
func VerifC34Parse() {
	il := c34intLens[verifChoose("intDigits", verifParam("intLens", 6, len(c34intLens)))]
	fl := verifChoose("fracDigits", c34Decimals+1)
	verifAssume(il+fl > 0)
	is, iv := c34digits("int", il)
	fs, fv := c34digits("frac", fl)
	s := is
	if fl > 0 {
		s = is + "." + fs
	} else if verifChoose("trailingPoint", 2) == 1 {
		s = is + "."
	}
	for k := fl; k < c34Decimals; k++ {
		fv *= 10
	}
	// within range: iv*10^9 + fv <= MaxUint64
	verifAssume(iv <= c34MaxU64/c34Unit)
	want := iv * c34Unit
	verifAssume(fv <= c34MaxU64-want)
	want += fv
	got, err := ParseBalance(s)
	if err != nil {
		verifFail("parse-rejects-valid-amount")
	}
	if got != want {
		verifFail("parse-wrong-amount")
	}
	if il == 11 {
		verifReach("eleven-integer-digits")
	}
	verifReach("end")
}
