package chain

// C38 — Fee bonds are released exactly once per bonded transaction.
//
// Two harnesses over the real Bonder (internal/chain/bond.go) on a real in-memory database (avalanchego memdb, executed
// from source in both worlds) and real chain.Transaction values built by chain.NewTransaction:
//   VerifC38Bonder  every history of Bond/Unbond calls on the Bonder alone
//   VerifC38Node    every history of BuildChunk/Accept calls on the real fdsmr.Node wrapping the real Bonder
// The oracle is the statement of the property: after every event the sponsor's pending bond equals the sum of the fees
// of its bonded transactions that are neither accepted nor expired, never exceeds the sponsor's maximum, and is zero
// once everything is settled.

import (
	"context"
	"math"

	"github.com/ava-labs/avalanchego/database"
	"github.com/ava-labs/avalanchego/database/memdb"
	"github.com/ava-labs/avalanchego/ids"

	"github.com/ava-labs/hypersdk/chain"
	"github.com/ava-labs/hypersdk/codec"
	"github.com/ava-labs/hypersdk/state"
	"github.com/ava-labs/hypersdk/x/dsmr"
	"github.com/ava-labs/hypersdk/x/fdsmr"
)

const c38NTx = 3
const c38NSponsor = 2

// c38Auth: auth with a fixed sponsor; nothing else of it is used by Bond/Unbond.
type c38Auth struct{ addr codec.Address }

func (c38Auth) GetTypeID() uint8                      { return 0 }
func (c38Auth) ValidRange(chain.Rules) (int64, int64) { return -1, -1 }
func (c38Auth) Bytes() []byte                         { return []byte{0} }
func (c38Auth) ComputeUnits(chain.Rules) uint64       { return 1 }
func (c38Auth) Verify(context.Context, []byte) error  { return nil }
func (a c38Auth) Actor() codec.Address                { return a.addr }
func (a c38Auth) Sponsor() codec.Address              { return a.addr }

// c38Mut: map-backed state.Mutable holding the max bond balances.
type c38Mut struct{ m map[string][]byte }

func (z c38Mut) GetValue(_ context.Context, k []byte) ([]byte, error) {
	v, ok := z.m[string(k)]
	if !ok {
		return nil, database.ErrNotFound
	}
	return v, nil
}
func (z c38Mut) Insert(_ context.Context, k, v []byte) error { z.m[string(k)] = v; return nil }
func (z c38Mut) Remove(_ context.Context, k []byte) error    { delete(z.m, string(k)); return nil }

var _ state.Mutable = c38Mut{}

// c38Expiry: tx i expires at c38Expiry[i]; sponsor of tx i is c38SponsorOf[i] (two txs of one sponsor + a bystander).
var c38Expiry = [c38NTx]int64{1000, 2000, 2000}
var c38SponsorOf = [c38NTx]int{0, 0, 1}

func c38Sponsor(i int) codec.Address { return codec.Address{1, byte(i + 1)} }

// c38Txs builds the transaction universe through the real constructor (distinct IDs and sizes by construction:
// different expiry/sponsor, MaxFee seeds).
func c38Txs(sponsorOf [c38NTx]int) [c38NTx]*chain.Transaction {
	var txs [c38NTx]*chain.Transaction
	for i := 0; i < c38NTx; i++ {
		tx, err := chain.NewTransaction(
			chain.Base{Timestamp: c38Expiry[i], ChainID: ids.ID{7}, MaxFee: uint64(1 + 300*i)},
			[]chain.Action{},
			c38Auth{c38Sponsor(sponsorOf[i])},
		)
		if err != nil {
			verifFail("setup-new-transaction")
		}
		txs[i] = tx
	}
	return txs
}

// c38World is the system under test plus the reference model.
type c38World struct {
	ctx       context.Context
	bonder    Bonder
	mut       c38Mut
	txs       [c38NTx]*chain.Transaction
	max       [c38NSponsor]uint64
	sponsorOf [c38NTx]int
	// reference model: fee of each bonded, unsettled transaction
	bonded [c38NTx]bool
	fee    [c38NTx]uint64
}

// c38MaxBounded / c38RateBounded: bounds of the "no overflow possible" harnesses (fee = size*rate < 2^50, sums < 2^63).
const c38MaxBounded = uint64(1) << 62
const c38RateBounded = uint64(1) << 40

func c38NewWorld(bounded bool, sponsorOf [c38NTx]int) *c38World {
	w := &c38World{ctx: context.Background(), bonder: NewBonder(memdb.New()), mut: c38Mut{map[string][]byte{}}, txs: c38Txs(sponsorOf), sponsorOf: sponsorOf}
	for s := 0; s < c38NSponsor; s++ {
		w.max[s] = verifU64("max")
		if bounded {
			verifAssume(w.max[s] <= c38MaxBounded)
		}
		if err := w.bonder.SetMaxBalance(w.ctx, w.mut, c38Sponsor(s), w.max[s]); err != nil {
			verifFail("setup-set-max-balance")
		}
	}
	return w
}

// noteBonded records a successful Bond of tx i at feeRate (a transaction that is already bonded keeps its fee).
func (w *c38World) noteBonded(i int, feeRate uint64) {
	if !w.bonded[i] {
		w.bonded[i] = true
		w.fee[i] = uint64(w.txs[i].Size()) * feeRate
	}
}

// check: the property, after any event.
func (w *c38World) check() {
	allSettled := true
	for s := 0; s < c38NSponsor; s++ {
		addr := c38Sponsor(s)
		got, err := w.bonder.getPendingBondBalance(addr[:])
		if err != nil {
			verifFail("pending-balance-read-error")
		}
		want := uint64(0)
		for i := 0; i < c38NTx; i++ {
			if w.sponsorOf[i] == s && w.bonded[i] {
				want += w.fee[i]
				allSettled = false
			}
		}
		if got != want {
			verifFail("pending-differs-from-unsettled-fees")
		}
		if got > w.max[s] {
			verifFail("pending-exceeds-max")
		}
	}
	if allSettled {
		verifReach("all-settled")
	}
}

// VerifC38Bonder: arbitrary Bond/Unbond history on the Bonder; fee rates and maxima small enough that no sum overflows.
func VerifC38Bonder() { c38BonderHistory(true, verifParam("maxOps", 3, 4)) }

// VerifC38BonderOverflow: the same with unconstrained 64-bit fee rates and maxima (shorter histories).
func VerifC38BonderOverflow() { c38BonderHistory(false, verifParam("maxOpsOverflow", 2, 3)) }

func c38BonderHistory(bounded bool, maxOps int) {
	w := c38NewWorld(bounded, c38SponsorOf)
	n := 1 + verifChoose("n", maxOps)
	for k := 0; k < n; k++ {
		i := verifChoose("tx", c38NTx)
		if verifChoose("op", 2) == 0 {
			rate := verifU64("rate")
			if bounded {
				verifAssume(rate <= c38RateBounded)
			}
			ok, err := w.bonder.Bond(w.ctx, w.mut, w.txs[i], rate)
			if err != nil {
				verifFail("bond-error")
			}
			if !ok {
				verifReach("refused")
			}
			if ok {
				if w.bonded[i] {
					verifReach("rebond")
				}
				w.noteBonded(i, rate)
			}
		} else {
			if err := w.bonder.Unbond(w.txs[i]); err != nil {
				verifFail("unbond-error")
			}
			if w.bonded[i] {
				verifReach("released")
			}
			w.bonded[i] = false
		}
		w.check()
	}
	// settle everything: pending must return to zero
	for i := 0; i < c38NTx; i++ {
		if err := w.bonder.Unbond(w.txs[i]); err != nil {
			verifFail("unbond-error")
		}
		w.bonded[i] = false
	}
	w.check()
	verifReach("end")
}

// c38DSMR is the inner DSMR of the fdsmr node: it records the built chunks and hands the chosen ones back on Accept.
type c38DSMR struct {
	built  [][]*chain.Transaction
	accept []int // indices into built for the next Accept
}

func (d *c38DSMR) BuildChunk(_ context.Context, txs []*chain.Transaction, _ int64, _ codec.Address) error {
	d.built = append(d.built, txs)
	return nil
}

func (d *c38DSMR) Accept(_ context.Context, block dsmr.Block) (dsmr.ExecutedBlock[*chain.Transaction], error) {
	eb := dsmr.ExecutedBlock[*chain.Transaction]{BlockHeader: block.BlockHeader, ID: block.GetID()}
	for _, j := range d.accept {
		eb.Chunks = append(eb.Chunks, dsmr.Chunk[*chain.Transaction]{UnsignedChunk: dsmr.UnsignedChunk[*chain.Transaction]{Txs: d.built[j]}})
	}
	return eb, nil
}

// VerifC38Node: arbitrary history of chunk builds (any transaction list incl. duplicates, any fee rate) and block
// accepts (any non-decreasing timestamp, any previously built chunk) on the real fdsmr.Node + Bonder.
func VerifC38Node() {
	// two transactions: A (sponsor 0, expiry 1000) and B (expiry 2000) of the same sponsor (quick) or of either sponsor (thorough)
	sponsorOf := [c38NTx]int{0, 0, 1}
	if verifParam("sponsorsOfB", 1, 2) == 2 {
		sponsorOf[1] = verifChoose("sponsorOfB", 2)
	}
	w := c38NewWorld(true, sponsorOf)
	inner := &c38DSMR{}
	node := fdsmr.New[*c38DSMR, *chain.Transaction](inner, w.bonder)
	maxEvents := verifParam("maxEvents", 3, 3)
	maxTxs := verifParam("maxTxsPerChunk", 2, 2)
	nTx := 2
	anyOrder := 0 // chunk lists in non-decreasing transaction order only ([A,B], not [B,A])
	lastTS := int64(0)
	n := 1 + verifChoose("n", maxEvents)
	for k := 0; k < n; k++ {
		if verifChoose("event", 2) == 0 {
			// build a chunk
			m := 1 + verifChoose("ntx", maxTxs)
			idx := make([]int, m)
			txs := make([]*chain.Transaction, m)
			for j := 0; j < m; j++ {
				idx[j] = verifChoose("tx", nTx)
				if j > 0 && anyOrder == 0 {
					verifAssume(idx[j] >= idx[j-1])
				}
				txs[j] = w.txs[idx[j]]
			}
			rate := verifU64("rate")
			verifAssume(rate <= c38RateBounded)
			before := len(inner.built)
			if err := node.BuildChunk(w.ctx, w.mut, txs, 5000, codec.Address{}, rate); err != nil {
				verifFail("build-chunk-error")
			}
			if len(inner.built) != before+1 {
				verifFail("build-chunk-not-forwarded")
			}
			// the transactions handed to the inner DSMR are exactly those whose Bond succeeded
			for _, tx := range inner.built[before] {
				for i := 0; i < c38NTx; i++ {
					if tx == w.txs[i] {
						if w.bonded[i] {
							verifReach("rebond")
						}
						w.noteBonded(i, rate)
					}
				}
			}
		} else {
			// accept a block
			ts := verifI64("ts")
			verifAssume(ts >= lastTS)
			lastTS = ts
			inner.accept = nil
			if len(inner.built) > 0 {
				c := verifChoose("chunk", len(inner.built)+1)
				if c > 0 {
					inner.accept = []int{c - 1}
				}
			}
			if _, err := node.Accept(w.ctx, dsmr.Block{BlockHeader: dsmr.BlockHeader{Height: uint64(k + 1), Timestamp: ts}}); err != nil {
				verifFail("accept-error")
			}
			for i := 0; i < c38NTx; i++ {
				if w.bonded[i] {
					if c38Expiry[i] < ts {
						w.bonded[i] = false
						verifReach("expired")
					}
				}
			}
			for _, j := range inner.accept {
				for _, tx := range inner.built[j] {
					for i := 0; i < c38NTx; i++ {
						if tx == w.txs[i] {
							if w.bonded[i] {
								verifReach("accepted")
							}
							w.bonded[i] = false
						}
					}
				}
			}
		}
		w.check()
	}
	// a final block after every expiry settles everything: pending must return to zero
	inner.accept = nil
	if _, err := node.Accept(w.ctx, dsmr.Block{BlockHeader: dsmr.BlockHeader{Height: uint64(n + 1), Timestamp: math.MaxInt64}}); err != nil {
		verifFail("accept-error")
	}
	for i := 0; i < c38NTx; i++ {
		w.bonded[i] = false
	}
	w.check()
	verifReach("end")
}
