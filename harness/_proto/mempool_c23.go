package mempool

import (
	"context"

	"github.com/ava-labs/avalanchego/ids"
	"github.com/ava-labs/avalanchego/trace"

	"github.com/ava-labs/hypersdk/codec"
)

func verifI64(tag string) int64
func verifU8(tag string) uint8
func verifChoose(tag string, n int) int
func verifAssume(c bool)
func verifFail(label string)
func verifReach(m string)

type vItem struct {
	id  ids.ID
	exp int64
	sp  codec.Address
	sz  int
}

func (v *vItem) GetID() ids.ID             { return v.id }
func (v *vItem) GetExpiry() int64          { return v.exp }
func (v *vItem) GetSponsor() codec.Address { return v.sp }
func (v *vItem) Size() int                 { return v.sz }

const c23Items = 3
const c23Ops = 3

func VerifC23() {
	ctx := context.Background()
	var tr trace.Tracer
	items := make([]*vItem, c23Items)
	for i := range items {
		items[i] = &vItem{id: ids.ID{byte(i + 1)}, exp: verifI64("exp"), sp: codec.Address{byte(verifChoose("sp", 2))}, sz: 1 + i}
	}
	maxSize := 1 + verifChoose("max", 2)
	maxSp := 1 + verifChoose("maxsp", 2)
	m := New[*vItem](tr, maxSize, maxSp)
	var ref []*vItem
	n := 1 + verifChoose("n", c23Ops)
	for i := 0; i < n; i++ {
		switch verifChoose("op", 4) {
		case 0:
			it := items[verifChoose("item", c23Items)]
			m.Add(ctx, []*vItem{it})
			dup, owned := false, 0
			for _, x := range ref {
				if x == it {
					dup = true
				}
				if x.sp == it.sp {
					owned++
				}
			}
			if !dup && owned < maxSp && len(ref) < maxSize {
				ref = append(ref, it)
			}
		case 1:
			it := items[verifChoose("item", c23Items)]
			m.Remove(ctx, []*vItem{it})
			for j, x := range ref {
				if x == it {
					ref = append(append([]*vItem{}, ref[:j]...), ref[j+1:]...)
					break
				}
			}
		case 2:
			t := verifI64("t")
			got := m.SetMinTimestamp(ctx, t)
			var keep []*vItem
			cnt := 0
			for _, x := range ref {
				if x.exp < t {
					cnt++
				} else {
					keep = append(keep, x)
				}
			}
			ref = keep
			if len(got) != cnt {
				verifFail("setmin-count")
			}
			for _, g := range got {
				if g.exp >= t {
					verifFail("setmin-unexpired")
				}
			}
		case 3:
			got, ok := m.PopNext(ctx)
			if ok != (len(ref) > 0) {
				verifFail("pop-ok")
			}
			if ok {
				if got != ref[0] {
					verifFail("pop-order")
				}
				ref = ref[1:]
			}
		}
		if m.Len(ctx) != len(ref) {
			verifFail("len")
		}
		sz := 0
		for _, x := range ref {
			sz += x.sz
		}
		if m.Size(ctx) != sz {
			verifFail("size")
		}
		if len(ref) > maxSize {
			verifFail("bound")
		}
		pk, ok := m.PeekNext(ctx)
		if ok != (len(ref) > 0) || (ok && pk != ref[0]) {
			verifFail("peek")
		}
	}
	verifReach("end")
}
