package codec

import "encoding/hex"

func verifU8(tag string) uint8
func verifChoose(tag string, n int) int
func verifFail(label string)
func verifReach(m string)

func VerifHexLemma() {
	n := 1 + verifChoose("n", 4)
	in := make([]byte, n)
	for i := range in {
		in[i] = verifU8("x")
	}
	s := hex.EncodeToString(in)
	d, err := hex.DecodeString(s)
	if err != nil {
		verifFail("decode-error")
	}
	if len(d) != n {
		verifFail("len")
	}
	for i := range in {
		if d[i] != in[i] {
			verifFail("byte")
		}
	}
	verifReach("end")
}
