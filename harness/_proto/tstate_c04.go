package tstate

import (
	"context"

	"github.com/ava-labs/avalanchego/utils/maybe"

	"github.com/ava-labs/hypersdk/state"
)

func verifU8(tag string) uint8
func verifChoose(tag string, n int) int
func verifAssume(c bool)
func verifFail(label string)
func verifReach(m string)

const c04Keys = 1
const c04Ops = 4

type c04opt struct {
	ok bool
	v  byte
}

func c04key(i int) []byte { return []byte{byte(i), 0, 1} }

func VerifC04() {
	ctx := context.Background()
	base := map[string][]byte{}
	under := [c04Keys]c04opt{}
	ts := New(0)
	for i := 0; i < c04Keys; i++ {
		if verifChoose("base", 2) == 1 {
			b := verifU8("basev")
			base[string(c04key(i))] = []byte{b}
			under[i] = c04opt{true, b}
		}
		switch verifChoose("pend", 3) {
		case 1:
			b := verifU8("pendv")
			ts.changedKeys[string(c04key(i))] = maybe.Some([]byte{b})
			under[i] = c04opt{true, b}
		case 2:
			ts.changedKeys[string(c04key(i))] = maybe.Nothing[[]byte]()
			under[i] = c04opt{}
		}
	}
	v := ts.NewView(state.CompletePermissions, state.ImmutableStorage(base), 0)
	vis := under
	var cpIdx [c04Ops]int
	var cpSnap [c04Ops][c04Keys]c04opt
	ncp := 0
	n := 1 + verifChoose("n", c04Ops)
	for i := 0; i < n; i++ {
		k := verifChoose("key", c04Keys)
		switch verifChoose("op", 4) {
		case 0:
			b := verifU8("insv")
			if err := v.Insert(ctx, c04key(k), []byte{b}); err != nil {
				verifFail("insert-error")
			}
			vis[k] = c04opt{true, b}
		case 1:
			if err := v.Remove(ctx, c04key(k)); err != nil {
				verifFail("remove-error")
			}
			vis[k] = c04opt{}
		case 2:
			cpIdx[ncp] = v.OpIndex()
			cpSnap[ncp] = vis
			ncp++
		case 3:
			if ncp == 0 {
				verifAssume(false)
			}
			j := verifChoose("cp", ncp)
			v.Rollback(ctx, cpIdx[j])
			vis = cpSnap[j]
			ncp = j + 1
		}
		for kk := 0; kk < c04Keys; kk++ {
			got, err := v.GetValue(ctx, c04key(kk))
			if (err == nil) != vis[kk].ok {
				verifFail("read-presence")
			}
			if err == nil && (len(got) != 1 || got[0] != vis[kk].v) {
				verifFail("read-value")
			}
			p, has := v.pendingChangedKeys[string(c04key(kk))]
			differs := vis[kk] != under[kk]
			if has != differs {
				verifFail("pending-not-exact-diff")
			}
			if has && p.HasValue() != vis[kk].ok {
				verifFail("pending-kind")
			}
		}
	}
	verifReach("end")
}
