package chain

func verifU8(tag string) uint8
func verifChoose(tag string, n int) int
func verifAssume(c bool)
func verifFail(label string)
func verifReach(m string)

const c15MaxLen = 6

// every accepted byte string re-encodes to itself
func VerifC15Result() {
	l := verifChoose("len", c15MaxLen+1)
	buf := make([]byte, l)
	for i := range buf {
		buf[i] = verifU8("b")
	}
	r, err := UnmarshalResult(buf)
	if err != nil {
		return
	}
	verifReach("accepted")
	out := r.Marshal()
	if len(out) != l {
		verifFail("reencode-length")
	}
	for i := range out {
		if out[i] != buf[i] {
			verifFail("reencode-bytes")
		}
	}
	verifReach("end")
}
