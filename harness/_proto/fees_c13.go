package fees

import (
	"github.com/ava-labs/hypersdk/internal/window"
)

func verifU64(tag string) uint64
func verifChoose(tag string, n int) int
func verifAssume(c bool)
func verifFail(label string)
func verifReach(m string)

// monotonicity in last consumption: c1 <= c2 => next(c1) <= next(c2)
func VerifC13Mono() {
	var w window.Window
	// one symbolic slot is enough to make the window total symbolic
	window.Update(&w, 9*8, verifU64("slot9"))
	price, target, denom, minP := verifU64("price"), verifU64("target"), verifU64("denom"), verifU64("min")
	verifAssume(target >= 1)
	verifAssume(denom >= 1)
	c1, c2 := verifU64("c1"), verifU64("c2")
	verifAssume(c1 <= c2)
	since := uint64(verifChoose("since", 3)) // 0,1,2 seconds
	n1, _ := computeNextPriceWindow(w, c1, price, target, denom, minP, since)
	n2, _ := computeNextPriceWindow(w, c2, price, target, denom, minP, since)
	if n2 < n1 {
		verifFail("non-monotone")
	}
	if n1 < minP {
		verifFail("below-min")
	}
	verifReach("end")
}
