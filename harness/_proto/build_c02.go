package chain

import (
	"context"
	"encoding/binary"
	"errors"
	"time"

	"github.com/ava-labs/avalanchego/utils/maybe"
	"github.com/ava-labs/avalanchego/utils/set"
	"github.com/ava-labs/avalanchego/x/merkledb"

	"github.com/ava-labs/hypersdk/internal/validitywindow"
	"github.com/ava-labs/hypersdk/internal/workers"

	"github.com/ava-labs/avalanchego/database"
	"github.com/ava-labs/avalanchego/ids"

	"github.com/ava-labs/hypersdk/codec"
	"github.com/ava-labs/hypersdk/fees"
	"github.com/ava-labs/hypersdk/state"

	internalfees "github.com/ava-labs/hypersdk/internal/fees"
)

func verifU8(tag string) uint8
func verifChoose(tag string, n int) int
func verifAssume(c bool)
func verifFail(label string)
func verifReach(m string)

var hKey = []byte{9, 0, 1} // the shared data key (1 chunk)

func hBalKey(a codec.Address) []byte { return append([]byte{8}, append(a[:], 0, 1)...) }

type hRules struct{}

func (hRules) GetNetworkID() uint32                          { return 1 }
func (hRules) GetChainID() ids.ID                            { return ids.Empty }
func (hRules) GetMinBlockGap() int64                         { return 0 }
func (hRules) GetMinEmptyBlockGap() int64                    { return 0 }
func (hRules) GetValidityWindow() int64                      { return 60000 }
func (hRules) GetMaxActionsPerTx() uint8                     { return 4 }
func (hRules) GetMinUnitPrice() fees.Dimensions              { return fees.Dimensions{1, 1, 1, 1, 1} }
func (hRules) GetUnitPriceChangeDenominator() fees.Dimensions { return fees.Dimensions{48, 48, 48, 48, 48} }
func (hRules) GetWindowTargetUnits() fees.Dimensions         { return fees.Dimensions{1000, 1000, 1000, 1000, 1000} }
func (hRules) GetMaxBlockUnits() fees.Dimensions             { return fees.Dimensions{100000, 100000, 100000, 100000, 100000} }
func (hRules) GetBaseComputeUnits() uint64                   { return 1 }
func (hRules) GetSponsorStateKeysMaxChunks() []uint16        { return []uint16{1} }
func (hRules) GetStorageKeyReadUnits() uint64                { return 1 }
func (hRules) GetStorageValueReadUnits() uint64              { return 1 }
func (hRules) GetStorageKeyAllocateUnits() uint64            { return 1 }
func (hRules) GetStorageValueAllocateUnits() uint64          { return 1 }
func (hRules) GetStorageKeyWriteUnits() uint64               { return 1 }
func (hRules) GetStorageValueWriteUnits() uint64             { return 1 }
func (hRules) FetchCustom(string) (any, bool)                { return nil, false }

type hBH struct{}

func (hBH) SponsorStateKeys(a codec.Address) state.Keys {
	return state.Keys{string(hBalKey(a)): state.Read | state.Write}
}
func (hBH) GetBalance(ctx context.Context, a codec.Address, im state.Immutable) (uint64, error) {
	v, err := im.GetValue(ctx, hBalKey(a))
	if errors.Is(err, database.ErrNotFound) {
		return 0, nil
	}
	if err != nil {
		return 0, err
	}
	return binary.BigEndian.Uint64(v), nil
}
func (h hBH) CanDeduct(ctx context.Context, a codec.Address, im state.Immutable, amount uint64) error {
	b, err := h.GetBalance(ctx, a, im)
	if err != nil {
		return err
	}
	if b < amount {
		return errors.New("insufficient")
	}
	return nil
}
func (h hBH) Deduct(ctx context.Context, a codec.Address, mu state.Mutable, amount uint64) error {
	b, err := h.GetBalance(ctx, a, mu)
	if err != nil {
		return err
	}
	if b < amount {
		return errors.New("insufficient")
	}
	return mu.Insert(ctx, hBalKey(a), binary.BigEndian.AppendUint64(nil, b-amount))
}
func (h hBH) AddBalance(ctx context.Context, a codec.Address, mu state.Mutable, amount uint64) error {
	b, _ := h.GetBalance(ctx, a, mu)
	return mu.Insert(ctx, hBalKey(a), binary.BigEndian.AppendUint64(nil, b+amount))
}

type hAuth struct{ addr codec.Address }

func (hAuth) GetTypeID() uint8                  { return 0 }
func (hAuth) ValidRange(Rules) (int64, int64)   { return -1, -1 }
func (hAuth) Bytes() []byte                     { return []byte{0} }
func (hAuth) ComputeUnits(Rules) uint64         { return 1 }
func (hAuth) Verify(context.Context, []byte) error { return nil }
func (a hAuth) Actor() codec.Address            { return a.addr }
func (a hAuth) Sponsor() codec.Address          { return a.addr }

// hAction: declares hKey with a permission and performs one op on it.
type hAction struct {
	perm state.Permissions
	op   int  // 0 get, 1 insert val, 2 remove
	val  byte
	fail bool
	seen *[]byte // value observed by op 0
	saw  *bool
}

func (hAction) ValidRange(Rules) (int64, int64) { return -1, -1 }
func (hAction) Bytes() []byte                   { return []byte{1} }
func (hAction) ComputeUnits(Rules) uint64       { return 1 }
func (a hAction) StateKeys(codec.Address, ids.ID) state.Keys {
	return state.Keys{string(hKey): a.perm}
}
func (a hAction) Execute(ctx context.Context, _ Rules, mu state.Mutable, _ int64, _ codec.Address, _ ids.ID) ([]byte, error) {
	switch a.op {
	case 0:
		v, err := mu.GetValue(ctx, hKey)
		if err == nil {
			*a.seen = v
			*a.saw = true
		}
	case 1:
		if err := mu.Insert(ctx, hKey, []byte{a.val}); err != nil {
			return nil, err
		}
	case 2:
		if err := mu.Remove(ctx, hKey); err != nil {
			return nil, err
		}
	}
	if a.fail {
		return nil, errors.New("action failed")
	}
	return []byte{a.val}, nil
}

type hIm struct{ m map[string][]byte }

func (h hIm) GetValue(_ context.Context, k []byte) ([]byte, error) {
	v, ok := h.m[string(k)]
	if !ok {
		return nil, database.ErrNotFound
	}
	return v, nil
}

type hMeta struct{}

func (hMeta) HeightPrefix() []byte    { return []byte{0} }
func (hMeta) TimestampPrefix() []byte { return []byte{1} }
func (hMeta) FeePrefix() []byte       { return []byte{2} }


// hView: a merkledb.View whose content is a map; root = number of NewView generations (stands for a hash)
type hView struct {
	merkledb.View
	m   map[string][]byte
	gen byte
}

func (v *hView) GetValue(_ context.Context, k []byte) ([]byte, error) {
	x, ok := v.m[string(k)]
	if !ok {
		return nil, database.ErrNotFound
	}
	return x, nil
}
func (v *hView) GetMerkleRoot(context.Context) (ids.ID, error) { return ids.ID{v.gen}, nil }
func (v *hView) NewView(_ context.Context, ch merkledb.ViewChanges) (merkledb.View, error) {
	n := &hView{m: map[string][]byte{}, gen: v.gen + 1}
	for k, x := range v.m {
		n.m[k] = x
	}
	for k, x := range ch.MapOps {
		if x.HasValue() {
			n.m[k] = x.Value()
		} else {
			delete(n.m, k)
		}
	}
	return n, nil
}

var _ = maybe.Nothing[[]byte]

type hVW struct{}

func (hVW) VerifyExpiryReplayProtection(context.Context, validitywindow.ExecutionBlock[*Transaction]) error {
	return nil
}
func (hVW) Accept(validitywindow.ExecutionBlock[*Transaction]) {}
func (hVW) IsRepeat(context.Context, validitywindow.ExecutionBlock[*Transaction], int64, []*Transaction) (set.Bits, error) {
	return set.NewBits(), nil
}

type hPool struct {
	txs      []*Transaction
	restored []*Transaction
}

func (p *hPool) Len(context.Context) int            { return len(p.txs) }
func (p *hPool) Size(context.Context) int           { return 0 }
func (p *hPool) Add(context.Context, []*Transaction) {}
func (p *hPool) StartStreaming(context.Context)     {}
func (p *hPool) PrepareStream(context.Context, int) {}
func (p *hPool) Stream(_ context.Context, n int) []*Transaction {
	out := p.txs
	p.txs = nil
	return out
}
func (p *hPool) FinishStreaming(_ context.Context, r []*Transaction) int {
	p.restored = append(p.restored, r...)
	return len(r)
}

type hRF struct{}

func (hRF) GetRules(int64) Rules { return hRules{} }

type hEngines struct{}

func (hEngines) GetAuthBatchVerifier(uint8, int, int) (AuthBatchVerifier, bool) { return nil, false }

const c02Txs = 2

func VerifC02() {
	ctx := context.Background()
	perms := [2]state.Permissions{state.Read, state.All}
	parentView := &hView{m: map[string][]byte{}}
	fm0 := internalfees.NewManager(nil)
	for d := fees.Dimension(0); d < fees.FeeDimensions; d++ {
		fm0.SetUnitPrice(d, 1)
	}
	parentView.m[string(HeightKey([]byte{0}))] = binary.BigEndian.AppendUint64(nil, 0)
	parentView.m[string(TimestampKey([]byte{1}))] = binary.BigEndian.AppendUint64(nil, 0)
	parentView.m[string(FeeKey([]byte{2}))] = fm0.Bytes()
	if verifChoose("parent-has-key", 2) == 1 {
		parentView.m[string(hKey)] = []byte{7}
	}
	var txs []*Transaction
	for i := 0; i < c02Txs; i++ {
		addr := codec.Address{byte(1 + i)}
		bal := uint64(1_000_000)
		if verifChoose("poor", 2) == 1 {
			bal = 3 // cannot pay the fee
		}
		parentView.m[string(hBalKey(addr))] = binary.BigEndian.AppendUint64(nil, bal)
		p := perms[verifChoose("perm", 2)]
		op := 0
		if p == state.All {
			op = verifChoose("op", 3)
		}
		seen, saw := []byte(nil), false
		act := hAction{perm: p, op: op, val: byte(10 + i), fail: verifChoose("fail", 2) == 1, seen: &seen, saw: &saw}
		exp := int64(2000)
		if verifChoose("expired", 2) == 1 {
			exp = -1000
		}
		txs = append(txs, &Transaction{
			TransactionData: TransactionData{Base: Base{Timestamp: exp, ChainID: ids.Empty, MaxFee: 1 << 40}, Actions: []Action{act}},
			Auth:            hAuth{addr},
			size:            50,
			id:              ids.ID{byte(1 + i)},
		})
	}
	pool := &hPool{txs: txs}
	cfg := Config{TransactionExecutionCores: 1, StateFetchConcurrency: 1, TargetBuildDuration: time.Second, TargetTxsSize: 1 << 20}
	b := &Builder{ruleFactory: hRF{}, metadataManager: hMeta{}, balanceHandler: hBH{}, mempool: pool, validityWindow: hVW{}, metrics: &ChainMetrics{}, config: cfg}
	parentBlk := &ExecutionBlock{StatelessBlock: &StatelessBlock{Block: Block{Tmstmp: 0, Hght: 0}, id: ids.ID{99}}}
	parentOut := &OutputBlock{ExecutionBlock: parentBlk, View: parentView}
	blk, out, err := b.BuildBlock(ctx, nil, parentOut)
	if err != nil {
		verifReach("build-error")
		return
	}
	verifReach("built")
	p := &Processor{ruleFactory: hRF{}, authVerificationWorkers: workers.NewSerial(), authEngines: hEngines{}, metadataManager: hMeta{},
		balanceHandler: hBH{}, validityWindow: hVW{}, metrics: &ChainMetrics{}, config: cfg}
	vout, verr := p.Execute(ctx, parentView, blk, true)
	if verr != nil {
		verifFail("built-block-fails-verification")
	}
	if len(vout.ExecutionResults.Results) != len(out.ExecutionResults.Results) {
		verifFail("result-count")
	}
	for i := range vout.ExecutionResults.Results {
		if vout.ExecutionResults.Results[i].Success != out.ExecutionResults.Results[i].Success {
			verifFail("result-success")
		}
		if vout.ExecutionResults.Results[i].Fee != out.ExecutionResults.Results[i].Fee {
			verifFail("result-fee")
		}
	}
	if vout.ExecutionResults.UnitsConsumed != out.ExecutionResults.UnitsConsumed {
		verifFail("units-consumed")
	}
	if vout.ExecutionResults.UnitPrices != out.ExecutionResults.UnitPrices {
		verifFail("unit-prices")
	}
	bv, vv := out.View.(*hView), vout.View.(*hView)
	if len(bv.m) != len(vv.m) {
		verifFail("post-state-size")
	}
	for k, x := range bv.m {
		y, ok := vv.m[k]
		if !ok {
			verifFail("post-state-missing-key")
		}
		if ok {
			if len(x) != len(y) {
				verifFail("post-state-len")
			}
			if len(x) == len(y) {
				for j := range x {
					if x[j] != y[j] {
						verifFail("post-state-value")
					}
				}
			}
		}
	}
	verifReach("end")
}
