package keys

import "encoding/binary"

func verifU8(tag string) uint8
func verifU64(tag string) uint64
func verifChoose(tag string, n int) int
func verifAssume(c bool)
func verifFail(label string)
func verifReach(m string)

// refChunks is the property's arithmetic: 0 for empty, floor(n/64)+1 otherwise.
func refChunks(n int) (int, bool) {
	if n == 0 {
		return 0, true
	}
	c := n/64 + 1
	return c, c <= 65535
}

func VerifC40() {
	// key of length 0..4 with symbolic bytes
	kl := verifChoose("keylen", 5)
	key := make([]byte, kl)
	for i := range key {
		key[i] = verifU8("kb")
	}
	mc, ok := MaxChunks(key)
	if ok != (kl >= 2) {
		verifFail("maxchunks-ok")
	}
	if ok && mc != binary.BigEndian.Uint16(key[kl-2:]) {
		verifFail("maxchunks-value")
	}
	if Valid(string(key)) != (kl >= 2) {
		verifFail("valid")
	}
	dc, ok2 := DecodeChunks(key)
	if ok2 != ok || (ok && dc != mc) {
		verifFail("decode")
	}
	// value length symbolic 0..2^23 via numChunks on int
	n := int(verifU64("vlen"))
	verifAssume(n >= 0 && n <= 1<<23)
	got, gok := numChunks(n)
	want, wok := refChunks(n)
	if gok != wok || (gok && int(got) != want) {
		verifFail("numchunks")
	}
	// monotonic: m >= n => chunks(m) >= chunks(n) when both ok
	m := int(verifU64("vlen2"))
	verifAssume(m >= n && m <= 1<<23)
	gm, mok := numChunks(m)
	if mok && gok && gm < got {
		verifFail("monotone")
	}
	if mok && !gok {
		verifFail("monotone-ok")
	}
	// Encode(key, m) admits every value of length n <= m
	enc, eok := Encode(key, m)
	if eok != mok {
		verifFail("encode-ok")
	}
	if eok {
		reach := true
		_ = reach
		emc, _ := MaxChunks(enc)
		if gok && got > emc {
			verifFail("encode-admits")
		}
		verifReach("encoded")
	}
	verifReach("end")
}
