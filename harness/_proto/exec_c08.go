package executor

import (
	"errors"

	"github.com/ava-labs/hypersdk/state"
)

func verifChoose(tag string, n int) int
func verifAssume(c bool)
func verifFail(label string)
func verifReach(m string)

const c08Tasks = 3
const c08Keys = 2

var errC08 = errors.New("boom")

func VerifC08() {
	perms := [3]state.Permissions{state.Read, state.Write, state.Allocate}
	workers := 1 + verifChoose("workers", 2)
	e := New(c08Tasks, workers, 1000, nil)
	clock := 0
	var start, end [c08Tasks]int
	var keysOf [c08Tasks]state.Keys
	nt := 2 + verifChoose("tasks", c08Tasks-1)
	for i := 0; i < nt; i++ {
		ks := state.Keys{}
		for k := 0; k < c08Keys; k++ {
			c := verifChoose("perm", 4)
			if c > 0 {
				ks[string([]byte{byte(k), 0, 1})] = perms[c-1]
			}
		}
		keysOf[i] = ks
		i := i
		e.Run(ks, func() error {
			clock++
			start[i] = clock
			clock++
			end[i] = clock
			return nil
		})
	}
	if err := e.Wait(); err != nil {
		verifFail("wait-error")
	}
	for i := 0; i < nt; i++ {
		if start[i] == 0 {
			verifFail("task-not-run")
		}
		for j := i + 1; j < nt; j++ {
			conflict := false
			for key, pi := range keysOf[i] {
				pj, ok := keysOf[j][key]
				if ok {
					if pi != state.Read {
						conflict = true
					}
					if pj != state.Read {
						conflict = true
					}
				}
			}
			if conflict {
				if end[i] > start[j] {
					verifFail("conflict-order")
				}
			}
		}
	}
	verifReach("end")
}
