package validitywindow

func verifI64(tag string) int64
func verifAssume(c bool)
func verifFail(label string)
func verifReach(m string)

func VerifC10() {
	exp, ts, win := verifI64("exp"), verifI64("ts"), verifI64("win")
	verifAssume(ts >= 0)
	verifAssume(win >= 0)
	err := VerifyTimestamp(exp, ts, 1000, win)
	if err == nil {
		if exp%1000 != 0 {
			verifFail("misaligned-accepted")
		}
		if exp < ts {
			verifFail("expired-accepted")
		}
		// mathematical exp <= ts + win: no wrap possible here? check without overflow
		if exp-ts > win { // exp >= ts >= 0 so exp-ts does not overflow
			verifFail("future-accepted")
		}
		verifReach("accepted")
	} else {
		// every rejected triple violates one conjunct (in exact arithmetic)
		ok := true
		if exp%1000 != 0 {
			ok = false
		}
		if exp < ts {
			ok = false
		}
		if ok {
			if exp-ts <= win {
				verifFail("valid-rejected")
			}
		}
		verifReach("rejected")
	}
	verifReach("end")
}
