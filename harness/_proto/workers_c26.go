package workers

import "errors"

func verifChoose(tag string, n int) int
func verifAssume(c bool)
func verifFail(label string)
func verifReach(m string)

var errC26 = errors.New("task failed")

func VerifC26() {
	nw := 1 + verifChoose("workers", 2)
	w := NewParallel(nw, 4)
	nt := 1 + verifChoose("tasks", 3)
	j, err := w.NewJob(4)
	if err != nil {
		verifFail("newjob")
	}
	ran := [3]int{}
	anyFail := false
	for i := 0; i < nt; i++ {
		i := i
		fail := verifChoose("fail", 2) == 1
		if fail {
			anyFail = true
		}
		j.Go(func() error {
			ran[i]++
			if fail {
				return errC26
			}
			return nil
		})
	}
	j.Done(nil)
	res := j.Wait()
	if (res != nil) != anyFail {
		verifFail("wait-result")
	}
	for i := 0; i < nt; i++ {
		if ran[i] > 1 {
			verifFail("task-ran-twice")
		}
		if !anyFail && ran[i] != 1 {
			verifFail("task-not-run")
		}
	}
	w.Stop()
	verifReach("end")
}
