package state

func verifU8(tag string) uint8
func verifFail(label string)
func verifReach(m string)

func VerifC05Lattice() {
	p, r := Permissions(verifU8("p")), Permissions(verifU8("r"))
	has := p.Has(r)
	// spec: every bit of r is in p
	want := r&p == r
	if has != want {
		verifFail("has-mismatch")
	}
	// union of two declarations grants what either grants
	q := Permissions(verifU8("q"))
	k := Keys{}
	k.Add("abc", p)
	k.Add("abc", q)
	if k.Has([]byte("abc"), r) != ((p | q).Has(r)) {
		verifFail("union")
	}
	if k.Add("a", p) {
		verifFail("short-key-added")
	}
	verifReach("end")
}
