package codec

func verifU8(tag string) uint8
func verifChoose(tag string, n int) int
func verifAssume(c bool)
func verifFail(label string)
func verifReach(m string)

// parse accepts => payload is exactly AddressLen bytes (string length 2*(33+4) hex chars, optional 0x)
func VerifC28Parse() {
	n := verifChoose("hexbytes", 40) // decoded byte count 0..39
	pre := verifChoose("prefix", 2)
	s := make([]byte, 0, 2*n+2)
	if pre == 1 {
		s = append(s, '0', 'x')
	}
	for i := 0; i < 2*n; i++ {
		s = append(s, verifU8("c"))
	}
	a, err := StringToAddress(string(s))
	if err != nil {
		return
	}
	verifReach("accepted")
	if n != AddressLen+checksumLen {
		verifFail("wrong-length-accepted")
	}
	_ = a
	verifReach("end")
}

func VerifC28RoundTrip() {
	var a Address
	for i := range a {
		a[i] = verifU8("a")
	}
	b, err := StringToAddress(a.String())
	if err != nil {
		verifFail("roundtrip-error")
	}
	if a != b {
		verifFail("roundtrip-value")
	}
	verifReach("end")
}
