package snow

import (
	"context"
	"errors"
	"fmt"

	"github.com/ava-labs/avalanchego/ids"
	"github.com/ava-labs/avalanchego/snow/engine/snowman/block"

	"github.com/ava-labs/hypersdk/event"
	"github.com/ava-labs/hypersdk/internal/cache"

	avacache "github.com/ava-labs/avalanchego/cache"
)

func verifChoose(tag string, n int) int
func verifAssume(c bool)
func verifFail(label string)
func verifReach(m string)

type hBlk struct {
	id, parent ids.ID
	h          uint64
	invalid    bool
}

func (b *hBlk) GetID() ids.ID              { return b.id }
func (b *hBlk) GetParent() ids.ID          { return b.parent }
func (b *hBlk) GetTimestamp() int64        { return int64(b.h) }
func (b *hBlk) GetBytes() []byte           { return b.id[:] }
func (b *hBlk) GetHeight() uint64          { return b.h }
func (b *hBlk) GetContext() *block.Context { return nil }
func (b *hBlk) String() string             { return "blk" }

var _ fmt.Stringer = (*hBlk)(nil)

type hChain struct {
	verified []ids.ID
	accepted []ids.ID
}

func (c *hChain) Initialize(context.Context, ChainInput, *VM[*hBlk, *hBlk, *hBlk]) (ChainIndex[*hBlk], *hBlk, *hBlk, bool, error) {
	return nil, nil, nil, false, nil
}
func (c *hChain) SetConsensusIndex(*ConsensusIndex[*hBlk, *hBlk, *hBlk]) {}
func (c *hChain) BuildBlock(context.Context, *block.Context, *hBlk) (*hBlk, *hBlk, error) {
	return nil, nil, errors.New("no build")
}
func (c *hChain) ParseBlock(context.Context, []byte) (*hBlk, error) { return nil, errors.New("no parse") }
func (c *hChain) VerifyBlock(_ context.Context, parent *hBlk, b *hBlk) (*hBlk, error) {
	if b.invalid {
		return nil, errors.New("invalid block")
	}
	if parent == nil {
		verifFail("verify-with-nil-parent-output")
	}
	c.verified = append(c.verified, b.id)
	return b, nil
}
func (c *hChain) AcceptBlock(_ context.Context, parent *hBlk, b *hBlk) (*hBlk, error) {
	c.accepted = append(c.accepted, b.id)
	return b, nil
}

type hIndex struct {
	byID   map[ids.ID]*hBlk
	byH    map[uint64]*hBlk
	last   uint64
}

func (i *hIndex) UpdateLastAccepted(_ context.Context, b *hBlk) error {
	i.byID[b.id] = b
	i.byH[b.h] = b
	i.last = b.h
	return nil
}
func (i *hIndex) GetLastAcceptedHeight(context.Context) (uint64, error) { return i.last, nil }
func (i *hIndex) GetBlock(_ context.Context, id ids.ID) (*hBlk, error) {
	if b, ok := i.byID[id]; ok {
		return b, nil
	}
	return nil, errors.New("not found")
}
func (i *hIndex) GetBlockIDAtHeight(_ context.Context, h uint64) (ids.ID, error) {
	if b, ok := i.byH[h]; ok {
		return b.id, nil
	}
	return ids.Empty, errors.New("not found")
}
func (i *hIndex) GetBlockIDHeight(_ context.Context, id ids.ID) (uint64, error) {
	if b, ok := i.byID[id]; ok {
		return b.h, nil
	}
	return 0, errors.New("not found")
}
func (i *hIndex) GetBlockByHeight(_ context.Context, h uint64) (*hBlk, error) {
	if b, ok := i.byH[h]; ok {
		return b, nil
	}
	return nil, errors.New("not found")
}

func VerifC20() {
	ctx := context.Background()
	gen := &hBlk{id: ids.ID{1}, h: 0}
	chain := &hChain{}
	idx := &hIndex{byID: map[ids.ID]*hBlk{}, byH: map[uint64]*hBlk{}}
	_ = idx.UpdateLastAccepted(ctx, gen)
	vm := &VM[*hBlk, *hBlk, *hBlk]{chain: chain, metrics: &Metrics{}}
	vm.acceptedQueue = make(chan *StatefulBlock[*hBlk, *hBlk, *hBlk], acceptedQueueSize)
	vm.shutdownChan = make(chan struct{})
	vm.parsedBlocks = &avacache.LRU[ids.ID, *StatefulBlock[*hBlk, *hBlk, *hBlk]]{Size: 4}
	vm.verifiedBlocks = map[ids.ID]*StatefulBlock[*hBlk, *hBlk, *hBlk]{}
	vm.acceptedBlocksByID, _ = cache.NewFIFO[ids.ID, *StatefulBlock[*hBlk, *hBlk, *hBlk]](2)
	vm.acceptedBlocksByHeight, _ = cache.NewFIFO[uint64, ids.ID](2)
	var notified []ids.ID
	vm.AddAcceptedSub(event.SubscriptionFunc[*hBlk]{NotifyF: func(_ context.Context, b *hBlk) error {
		notified = append(notified, b.id)
		return nil
	}})
	if err := vm.makeConsensusIndex(ctx, idx, gen, gen, true); err != nil {
		verifFail("make-index")
	}
	vm.startAsyncAccepter(ctx)

	// two children of genesis (fork) and a grandchild
	a := &hBlk{id: ids.ID{2}, parent: gen.id, h: 1, invalid: verifChoose("a-invalid", 2) == 1}
	b := &hBlk{id: ids.ID{3}, parent: gen.id, h: 1}
	c := &hBlk{id: ids.ID{4}, parent: b.id, h: 2}
	sa, sb, sc := NewInputBlock(vm, a), NewInputBlock(vm, b), NewInputBlock(vm, c)
	errA := sa.Verify(ctx)
	if (errA != nil) != a.invalid {
		verifFail("verify-a")
	}
	if sb.Verify(ctx) != nil {
		verifFail("verify-b")
	}
	if sc.Verify(ctx) != nil {
		verifFail("verify-c")
	}
	// consensus decides for branch b
	if err := sb.Accept(ctx); err != nil {
		verifFail("accept-b")
	}
	if errA == nil {
		if err := sa.Reject(ctx); err != nil {
			verifFail("reject-a")
		}
	}
	if err := sc.Accept(ctx); err != nil {
		verifFail("accept-c")
	}
	vm.acceptedQueueBlocksProcessedWg.Wait()
	if len(chain.accepted) != 2 {
		verifFail("accepted-count")
	}
	if chain.accepted[0] != b.id {
		verifFail("accept-order")
	}
	if chain.accepted[1] != c.id {
		verifFail("accept-order-2")
	}
	if len(notified) != 3 { // genesis on reprocess? (makeConsensusIndex does not notify) + b + c
		if len(notified) != 2 {
			verifFail("notified-count")
		}
	}
	la, _ := vm.LastAccepted(ctx)
	if la != c.id {
		verifFail("last-accepted")
	}
	got, err := vm.GetBlockByHeight(ctx, 1)
	if err != nil {
		verifFail("get-by-height-error")
	}
	if err == nil {
		if got.ID() != b.id {
			verifFail("get-by-height")
		}
	}
	verifReach("end")
}
