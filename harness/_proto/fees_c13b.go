package fees

import (
	"math/big"

	"github.com/ava-labs/hypersdk/internal/window"
)

func verifU64(tag string) uint64
func verifChoose(tag string, n int) int
func verifAssume(c bool)
func verifFail(label string)
func verifReach(m string)

var c13max = new(big.Int).SetUint64(18446744073709551615)

// exact specification of the statement, in math/big
func c13spec(total, price, target, denom, minP, since uint64) uint64 {
	P := new(big.Int).SetUint64(price)
	next := new(big.Int).Set(P)
	if total > target {
		x := new(big.Int).Mul(P, new(big.Int).SetUint64(total-target))
		x.Div(x, new(big.Int).SetUint64(target))
		x.Div(x, new(big.Int).SetUint64(denom))
		if x.Sign() == 0 {
			x.SetUint64(1)
		}
		next.Add(next, x)
		if next.Cmp(c13max) > 0 {
			next.Set(c13max)
		}
	} else if total < target {
		x := new(big.Int).Mul(P, new(big.Int).SetUint64(target-total))
		x.Div(x, new(big.Int).SetUint64(target))
		x.Div(x, new(big.Int).SetUint64(denom))
		if x.Sign() == 0 {
			x.SetUint64(1)
		}
		if since > window.WindowSize {
			x.Mul(x, new(big.Int).SetUint64(since/window.WindowSize))
		}
		next.Sub(next, x)
		if next.Sign() < 0 {
			next.SetUint64(0)
		}
	}
	if next.Cmp(new(big.Int).SetUint64(minP)) < 0 {
		next.SetUint64(minP)
	}
	return next.Uint64()
}

func VerifC13Exact() {
	var w window.Window
	total := verifU64("total")
	window.Update(&w, 9*8, total)
	price, target, denom, minP := verifU64("price"), verifU64("target"), verifU64("denom"), verifU64("min")
	verifAssume(target >= 1)
	verifAssume(denom >= 1)
	// since = 1: window rolls by one, slot 9 moves to 8, consumed=0 added into slot 8
	got, _ := computeNextPriceWindow(w, 0, price, target, denom, minP, 1)
	want := c13spec(total, price, target, denom, minP, 1)
	if got != want {
		verifFail("not-exact")
	}
	verifReach("end")
}
