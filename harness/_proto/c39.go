package metadata

func verifU8(tag string) uint8
func verifChoose(tag string, n int) int
func verifFail(label string)
func verifReach(m string)

func c39prefix(tag string) []byte {
	n := verifChoose(tag, 3)
	b := make([]byte, n)
	for i := range b {
		b[i] = verifU8("pb")
	}
	return b
}

func c39isPrefix(a, b []byte) bool { // a prefix of b
	if len(a) > len(b) {
		return false
	}
	for i := range a {
		if a[i] != b[i] {
			return false
		}
	}
	return true
}

func VerifC39() {
	m := NewManager(c39prefix("h"), c39prefix("f"), c39prefix("t"))
	nvm := verifChoose("nvm", 2)
	var vm [][]byte
	for i := 0; i < nvm; i++ {
		vm = append(vm, c39prefix("v"))
	}
	got := HasConflictingPrefixes(m, vm)
	all := [][]byte{m.HeightPrefix(), m.FeePrefix(), m.TimestampPrefix()}
	all = append(all, vm...)
	want := false
	for i := range all {
		for j := range all {
			if i != j {
				if c39isPrefix(all[i], all[j]) {
					want = true
				}
			}
		}
	}
	if got != want {
		verifFail("conflict-mismatch")
	}
	verifReach("end")
}
