package chain

import (
	"context"
	"encoding/binary"
	"errors"

	"github.com/ava-labs/avalanchego/database"
	"github.com/ava-labs/avalanchego/ids"

	"github.com/ava-labs/hypersdk/codec"
	"github.com/ava-labs/hypersdk/fees"
	"github.com/ava-labs/hypersdk/state"

	internalfees "github.com/ava-labs/hypersdk/internal/fees"
)

func verifU8(tag string) uint8
func verifChoose(tag string, n int) int
func verifAssume(c bool)
func verifFail(label string)
func verifReach(m string)

var hKey = []byte{9, 0, 1} // the shared data key (1 chunk)

func hBalKey(a codec.Address) []byte { return append([]byte{8}, append(a[:], 0, 1)...) }

type hRules struct{}

func (hRules) GetNetworkID() uint32                          { return 1 }
func (hRules) GetChainID() ids.ID                            { return ids.Empty }
func (hRules) GetMinBlockGap() int64                         { return 0 }
func (hRules) GetMinEmptyBlockGap() int64                    { return 0 }
func (hRules) GetValidityWindow() int64                      { return 60000 }
func (hRules) GetMaxActionsPerTx() uint8                     { return 4 }
func (hRules) GetMinUnitPrice() fees.Dimensions              { return fees.Dimensions{1, 1, 1, 1, 1} }
func (hRules) GetUnitPriceChangeDenominator() fees.Dimensions { return fees.Dimensions{48, 48, 48, 48, 48} }
func (hRules) GetWindowTargetUnits() fees.Dimensions         { return fees.Dimensions{1000, 1000, 1000, 1000, 1000} }
func (hRules) GetMaxBlockUnits() fees.Dimensions             { return fees.Dimensions{100000, 100000, 100000, 100000, 100000} }
func (hRules) GetBaseComputeUnits() uint64                   { return 1 }
func (hRules) GetSponsorStateKeysMaxChunks() []uint16        { return []uint16{1} }
func (hRules) GetStorageKeyReadUnits() uint64                { return 1 }
func (hRules) GetStorageValueReadUnits() uint64              { return 1 }
func (hRules) GetStorageKeyAllocateUnits() uint64            { return 1 }
func (hRules) GetStorageValueAllocateUnits() uint64          { return 1 }
func (hRules) GetStorageKeyWriteUnits() uint64               { return 1 }
func (hRules) GetStorageValueWriteUnits() uint64             { return 1 }
func (hRules) FetchCustom(string) (any, bool)                { return nil, false }

type hBH struct{}

func (hBH) SponsorStateKeys(a codec.Address) state.Keys {
	return state.Keys{string(hBalKey(a)): state.Read | state.Write}
}
func (hBH) GetBalance(ctx context.Context, a codec.Address, im state.Immutable) (uint64, error) {
	v, err := im.GetValue(ctx, hBalKey(a))
	if errors.Is(err, database.ErrNotFound) {
		return 0, nil
	}
	if err != nil {
		return 0, err
	}
	return binary.BigEndian.Uint64(v), nil
}
func (h hBH) CanDeduct(ctx context.Context, a codec.Address, im state.Immutable, amount uint64) error {
	b, err := h.GetBalance(ctx, a, im)
	if err != nil {
		return err
	}
	if b < amount {
		return errors.New("insufficient")
	}
	return nil
}
func (h hBH) Deduct(ctx context.Context, a codec.Address, mu state.Mutable, amount uint64) error {
	b, err := h.GetBalance(ctx, a, mu)
	if err != nil {
		return err
	}
	if b < amount {
		return errors.New("insufficient")
	}
	return mu.Insert(ctx, hBalKey(a), binary.BigEndian.AppendUint64(nil, b-amount))
}
func (h hBH) AddBalance(ctx context.Context, a codec.Address, mu state.Mutable, amount uint64) error {
	b, _ := h.GetBalance(ctx, a, mu)
	return mu.Insert(ctx, hBalKey(a), binary.BigEndian.AppendUint64(nil, b+amount))
}

type hAuth struct{ addr codec.Address }

func (hAuth) GetTypeID() uint8                  { return 0 }
func (hAuth) ValidRange(Rules) (int64, int64)   { return -1, -1 }
func (hAuth) Bytes() []byte                     { return []byte{0} }
func (hAuth) ComputeUnits(Rules) uint64         { return 1 }
func (hAuth) Verify(context.Context, []byte) error { return nil }
func (a hAuth) Actor() codec.Address            { return a.addr }
func (a hAuth) Sponsor() codec.Address          { return a.addr }

// hAction: declares hKey with a permission and performs one op on it.
type hAction struct {
	perm state.Permissions
	op   int  // 0 get, 1 insert val, 2 remove
	val  byte
	fail bool
	seen *[]byte // value observed by op 0
	saw  *bool
}

func (hAction) ValidRange(Rules) (int64, int64) { return -1, -1 }
func (hAction) Bytes() []byte                   { return []byte{1} }
func (hAction) ComputeUnits(Rules) uint64       { return 1 }
func (a hAction) StateKeys(codec.Address, ids.ID) state.Keys {
	return state.Keys{string(hKey): a.perm}
}
func (a hAction) Execute(ctx context.Context, _ Rules, mu state.Mutable, _ int64, _ codec.Address, _ ids.ID) ([]byte, error) {
	switch a.op {
	case 0:
		v, err := mu.GetValue(ctx, hKey)
		if err == nil {
			*a.seen = v
			*a.saw = true
		}
	case 1:
		if err := mu.Insert(ctx, hKey, []byte{a.val}); err != nil {
			return nil, err
		}
	case 2:
		if err := mu.Remove(ctx, hKey); err != nil {
			return nil, err
		}
	}
	if a.fail {
		return nil, errors.New("action failed")
	}
	return []byte{a.val}, nil
}

type hIm struct{ m map[string][]byte }

func (h hIm) GetValue(_ context.Context, k []byte) ([]byte, error) {
	v, ok := h.m[string(k)]
	if !ok {
		return nil, database.ErrNotFound
	}
	return v, nil
}

type hMeta struct{}

func (hMeta) HeightPrefix() []byte    { return []byte{0} }
func (hMeta) TimestampPrefix() []byte { return []byte{1} }
func (hMeta) FeePrefix() []byte       { return []byte{2} }

const c01Txs = 2

func VerifC01() {
	ctx := context.Background()
	perms := [2]state.Permissions{state.Read, state.All}
	parent := hIm{map[string][]byte{}}
	if verifChoose("parent-has-key", 2) == 1 {
		parent.m[string(hKey)] = []byte{7}
	}
	var txs []*Transaction
	var acts [c01Txs]hAction
	var seen [c01Txs][]byte
	var saw [c01Txs]bool
	for i := 0; i < c01Txs; i++ {
		addr := codec.Address{byte(1 + i)}
		parent.m[string(hBalKey(addr))] = binary.BigEndian.AppendUint64(nil, 1_000_000)
		p := perms[verifChoose("perm", 2)]
		op := 0
		if p == state.All {
			op = verifChoose("op", 3)
		}
		acts[i] = hAction{perm: p, op: op, val: byte(10 + i), fail: verifChoose("fail", 2) == 1, seen: &seen[i], saw: &saw[i]}
		txs = append(txs, &Transaction{
			TransactionData: TransactionData{Base: Base{Timestamp: 2000, ChainID: ids.Empty, MaxFee: 1 << 40}, Actions: []Action{acts[i]}},
			Auth:            hAuth{addr},
			size:            50,
			id:              ids.ID{byte(1 + i)},
		})
	}
	cores := 1 + verifChoose("cores", 2)
	p := &Processor{
		balanceHandler:  hBH{},
		metadataManager: hMeta{},
		metrics:         &ChainMetrics{},
		config:          Config{TransactionExecutionCores: cores, StateFetchConcurrency: 1},
	}
	blk := &ExecutionBlock{StatelessBlock: &StatelessBlock{Block: Block{Tmstmp: 1500, Hght: 1, Txs: txs}}}
	fm := internalfees.NewManager(nil)
	for d := fees.Dimension(0); d < fees.FeeDimensions; d++ {
		fm.SetUnitPrice(d, 1)
	}
	results, ts, err := p.executeTxs(ctx, blk, parent, fm, hRules{})
	if err != nil {
		verifFail("execute-error")
	}
	// sequential reference
	cur, has := byte(0), false
	if v, ok := parent.m[string(hKey)]; ok {
		cur, has = v[0], true
	}
	for i := 0; i < c01Txs; i++ {
		a := acts[i]
		ncur, nhas := cur, has
		switch a.op {
		case 0:
			if has {
				if !saw[i] {
					verifFail("read-missed-value")
				}
				if saw[i] {
					if seen[i][0] != cur {
						verifFail("read-wrong-value")
					}
				}
			}
			if !has {
				if saw[i] {
					verifFail("read-phantom")
				}
			}
		case 1:
			ncur, nhas = a.val, true
		case 2:
			nhas = false
		}
		if results[i] == nil {
			verifFail("missing-result")
		}
		if results[i].Success == a.fail {
			verifFail("result-success-flag")
		}
		if !a.fail {
			cur, has = ncur, nhas
		}
	}
	ck := ts.ChangedKeys()
	got, changed := ck[string(hKey)]
	fhas, fval := has, cur
	if changed {
		if got.HasValue() {
			if !fhas {
				verifFail("final-should-be-absent")
			}
			if fhas {
				if got.Value()[0] != fval {
					verifFail("final-value")
				}
			}
		}
		if !got.HasValue() {
			if fhas {
				verifFail("final-should-exist")
			}
		}
	}
	if !changed {
		pv, pok := parent.m[string(hKey)]
		if pok != fhas {
			verifFail("final-unchanged-presence")
		}
		if pok {
			if fhas {
				if pv[0] != fval {
					verifFail("final-unchanged-value")
				}
			}
		}
	}
	verifReach("end")
}
