package fees

import (
	"github.com/ava-labs/hypersdk/fees"
)

func verifU64(tag string) uint64
func verifFail(label string)
func verifReach(m string)

func VerifC12Consume() {
	m := NewManager(nil)
	var old, d, l fees.Dimensions
	for i := 0; i < fees.FeeDimensions; i++ {
		old[i], d[i], l[i] = verifU64("old"), verifU64("d"), verifU64("l")
		m.SetLastConsumed(fees.Dimension(i), old[i])
	}
	ok, _ := m.Consume(d, l)
	now := m.UnitsConsumed()
	for i := 0; i < fees.FeeDimensions; i++ {
		if ok {
			if now[i] != old[i]+d[i] {
				verifFail("consumed-sum")
			}
			if now[i] < old[i] {
				verifFail("overflow-accepted")
			}
			if now[i] > l[i] {
				verifFail("limit-exceeded")
			}
		} else {
			if now[i] != old[i] {
				verifFail("partial-update")
			}
		}
	}
	if !ok {
		// some dimension must not fit
		fits := true
		for i := 0; i < fees.FeeDimensions; i++ {
			s := old[i] + d[i]
			if s < old[i] {
				fits = false
			}
			if s > l[i] {
				fits = false
			}
		}
		if fits {
			verifFail("rejected-although-fits")
		}
	}
	verifReach("end")
}
