package metadata

func c39prefix(tag string, maxLen int) []byte {
	n := verifChoose(tag, maxLen+1)
	return verifBytes("pb", n)
}

func c39isPrefix(a, b []byte) bool { // a is a prefix of b
	if len(a) > len(b) {
		return false
	}
	for i := range a {
		if a[i] != b[i] {
			return false
		}
	}
	return true
}

// VerifC39: HasConflictingPrefixes(m, vm) <=> some prefix in the combined list is a prefix of another one.
func VerifC39() {
	maxLen := verifParam("maxPrefixLen", 2, 3)
	maxVM := verifParam("maxVMPrefixes", 2, 2)
	m := NewManager(c39prefix("h", maxLen), c39prefix("f", maxLen), c39prefix("t", maxLen))
	nvm := verifChoose("nvm", maxVM+1)
	var vm [][]byte
	for i := 0; i < nvm; i++ {
		vm = append(vm, c39prefix("v", maxLen))
	}
	got := HasConflictingPrefixes(m, vm)
	all := [][]byte{m.HeightPrefix(), m.FeePrefix(), m.TimestampPrefix()}
	all = append(all, vm...)
	want := false
	for i := range all {
		for j := range all {
			if i != j {
				if c39isPrefix(all[i], all[j]) {
					want = true
				}
			}
		}
	}
	if got != want {
		if got {
			verifFail("conflict-reported-without-prefix-relation")
		}
		verifFail("conflict-missed")
	}
	if got {
		verifReach("conflict")
	} else {
		verifReach("no-conflict")
	}
	verifReach("end")
}
