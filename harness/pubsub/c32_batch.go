package pubsub

import (
	"time"

	"github.com/ava-labs/avalanchego/utils/logging"
	"github.com/ava-labs/avalanchego/utils/timer"
)

// The avalanchego timer is replaced in the engine run: arming, cancelling, stopping and the dispatch goroutine do
// nothing (natively the real timer runs with a one-hour timeout and never fires). The expiry of the timer is an
// operation of the harness: c32timerFires is the body of the callback NewMessageBuffer registers.
func c32timerNoop(t *timer.Timer)                 {}
func c32timerArm(t *timer.Timer, d time.Duration) {}
func c32timerFires(m *MessageBuffer) {
	m.l.Lock()
	defer m.l.Unlock()
	if m.closed {
		return
	}
	if len(m.pending) == 0 {
		return
	}
	m.clearPending()
}

// c32varint: length of the varint encoding of n (< 2^28).
func c32varint(n int) int {
	if n < 1<<7 {
		return 1
	}
	if n < 1<<14 {
		return 2
	}
	if n < 1<<21 {
		return 3
	}
	return 4
}

// VerifC32Size: messages of symbolic length (content abstract) are sent through the real MessageBuffer, with timer
// expiries in between, then the buffer is closed. Every batch on the outgoing queue must encode to at most maxSize
// bytes, and together the batches carry exactly the accepted messages (by encoded size: tag + length prefix + bytes).
func VerifC32Size() {
	maxMsgs := verifParam("maxMessages", 2, 3)
	maxLen := verifParam("maxMessageLen", 1<<15, 1<<22)
	maxSize := verifInt("maxSize")
	verifAssume(maxSize >= 1)
	verifAssume(maxSize <= 2*maxLen)
	m := NewMessageBuffer(logging.NoLog{}, 2*maxMsgs+2, maxSize, time.Hour)
	accepted := 0 // encoded size of all accepted messages
	n := 1 + verifChoose("n", maxMsgs)
	for i := 0; i < n; i++ {
		msg := verifBlob("len", maxLen)
		if err := m.Send(msg); err == nil {
			accepted += 1 + c32varint(len(msg)) + len(msg)
			verifReach("accepted")
		} else {
			verifReach("rejected")
		}
		if verifChoose("timer", 2) == 1 {
			c32timerFires(m)
		}
	}
	if m.Close() != nil {
		verifFail("close-error")
	}
	emitted := 0
	for b := range m.Queue {
		if len(b) > maxSize {
			verifFail("batch-exceeds-max-size")
		}
		emitted += len(b)
	}
	if emitted != accepted {
		verifFail("emitted-bytes-differ-from-accepted")
	}
	verifReach("end")
}

const c32MaxMsgs = 4

// VerifC32Order: short messages with symbolic bytes through the real MessageBuffer under every history of send /
// timer expiry / close; the batches found on the queue are decoded with ParseBatchMessage. With a queue that cannot
// fill up the decoded messages must be exactly the accepted ones, in order; with a one-slot queue (nobody reads) they
// must be an in-order selection of the accepted ones, and something may be missing only if the queue is full.
func VerifC32Order() {
	maxOps := verifParam("maxOps", 4, 5)
	maxLen := verifParam("maxMessageLen", 2, 3)
	maxSize := 3 + verifChoose("maxSize", verifParam("maxSizes", 4, 6)) // 3..6 (..8): below, at and above one/two entries
	slots := 1
	if verifChoose("queue", 2) == 1 {
		slots = maxOps + 2
	}
	m := NewMessageBuffer(logging.NoLog{}, slots, maxSize, time.Hour)
	var acc [][]byte
	closed := false
	drained := 0
	next := 0 // accepted messages before `next` are emitted or lost
	batches := 0
	lost := false
	check := func(b []byte) {
		batches++
		if len(b) > maxSize {
			verifFail("batch-exceeds-max-size")
		}
		msgs, err := ParseBatchMessage(b)
		if err != nil {
			verifFail("batch-does-not-decode")
		}
		for _, got := range msgs {
			// find the next accepted message equal to this one: exact position if nothing can be lost
			if slots > 1 {
				if next >= len(acc) {
					verifFail("emitted-more-than-accepted")
				}
				if !c32same(got, acc[next]) {
					verifFail("emitted-message-differs")
				}
				next++
				continue
			}
			for {
				if next >= len(acc) {
					verifFail("emitted-message-not-accepted-or-out-of-order")
				}
				next++
				if c32same(got, acc[next-1]) {
					break
				}
				lost = true
			}
		}
	}
	n := 1 + verifChoose("n", maxOps)
	for i := 0; i < n; i++ {
		switch verifChoose("op", 4) {
		case 3:
			// the consumer takes one batch off a one-slot queue (a slow reader catching up)
			verifAssume(slots == 1)
			select {
			case b, ok := <-m.Queue:
				if ok {
					check(b)
					drained++
					verifReach("consumer-drained")
				}
			default:
			}
		case 0:
			verifAssume(len(acc) < c32MaxMsgs+1)
			msg := verifBytes("msg", verifChoose("len", maxLen+1))
			err := m.Send(msg)
			if closed {
				if err == nil {
					verifFail("send-accepted-after-close")
				}
			} else if err == nil {
				acc = append(acc, msg)
			} else {
				verifReach("rejected")
			}
		case 1:
			c32timerFires(m)
		case 2:
			err := m.Close()
			if closed != (err != nil) {
				verifFail("close-result-wrong")
			}
			closed = true
		}
	}
	if !closed {
		if m.Close() != nil {
			verifFail("close-error")
		}
	}
	for b := range m.Queue {
		check(b)
	}
	if next < len(acc) {
		lost = true
	}
	if lost {
		if slots > 1 {
			verifFail("accepted-message-not-emitted")
		}
		if drained == 0 {
			if batches < slots {
				verifFail("message-lost-without-full-queue")
			}
		}
		verifReach("dropped-on-full-queue")
	}
	verifReach("end")
}

func c32same(a, b []byte) bool {
	if len(a) != len(b) {
		return false
	}
	d := byte(0)
	for i := range a {
		d |= a[i] ^ b[i]
	}
	return d == 0
}

// VerifC32Codec: ParseBatchMessage(CreateBatchMessage(ms)) == ms for up to maxMessages messages of lengths 0..2 or 130
// (two-byte length prefix) with symbolic bytes.
func VerifC32Codec() {
	lens := [...]int{0, 1, 2, 130}
	n := verifChoose("n", verifParam("maxMessages", 3, 4)+1)
	ms := make([][]byte, n)
	for i := range ms {
		ms[i] = verifBytes("msg", lens[verifChoose("len", len(lens))])
	}
	enc := CreateBatchMessage(ms)
	want := 0
	for i := range ms {
		want += 1 + c32varint(len(ms[i])) + len(ms[i])
	}
	if len(enc) != want {
		verifFail("encoded-size-differs-from-framing")
	}
	got, err := ParseBatchMessage(enc)
	if err != nil {
		verifFail("batch-does-not-decode")
	}
	if len(got) != n {
		verifFail("decoded-count-differs")
	}
	for i := range ms {
		if !c32same(got[i], ms[i]) {
			verifFail("decoded-message-differs")
		}
	}
	verifReach("end")
}
