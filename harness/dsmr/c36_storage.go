package dsmr

// C36 — DSMR chunk storage survives restarts unchanged.
//
// The real ChunkStorage (x/dsmr/storage.go) on a real in-memory database (avalanchego memdb, executed from source in
// both worlds) is driven through every history of local/remote chunk adds, certificate updates and minimum advances
// (saving some pending chunks, expiring others); then the storage is reopened on the same database and every
// observation the property names is compared between the old and the new instance.
//
// Two-worlds note (DESIGN 1.7a): chunk encoding (codec.LinearCodec, reflection) cannot be executed by the engine.
// The harness builds chunks with the REAL newChunk and the storage re-reads them with the REAL ParseChunk; in the
// engine both are redirected to the identity-table model below (c36NewChunkModel / c36ParseChunkModel). The oracle
// only compares observations of the old instance with observations of the new instance, never chunk IDs or byte
// contents with constants; the one quantity that crosses the worlds, the encoded length (it decides the rate-limit
// observation), is the same in the model as in the real encoding and that is asserted on every run
// (label setup-model-chunk-length).

import (
	"bytes"
	"context"

	"github.com/ava-labs/avalanchego/database/memdb"
	"github.com/ava-labs/avalanchego/ids"

	"github.com/ava-labs/hypersdk/codec"
	"github.com/ava-labs/hypersdk/x/dsmr/dsmrtest"
)

const c36MaxChunks = 3

// encoded length of a Chunk[dsmrtest.Tx]: producer 20 + beneficiary 33 + expiry 8 + tx count 4 + signer 48 +
// signature 96, plus 32+8+33 per transaction.
const c36ChunkBaseLen = 20 + 33 + 8 + 4 + 48 + 96
const c36TxLen = 32 + 8 + 33

// ---- engine-only model of chunk construction / parsing (see the two-worlds note) ----

var c36Table []Chunk[dsmrtest.Tx]

func c36NewChunkModel(u UnsignedChunk[dsmrtest.Tx], signer [48]byte, signature [96]byte) (Chunk[dsmrtest.Tx], error) {
	n := len(c36Table) + 1
	c := Chunk[dsmrtest.Tx]{UnsignedChunk: u, Signer: signer, Signature: signature}
	c.bytes = make([]byte, c36ChunkBaseLen+c36TxLen*len(u.Txs))
	c.bytes[0] = byte(n)
	c.id = ids.ID{0xC3, byte(n)}
	c36Table = append(c36Table, c)
	return c, nil
}

func c36ParseChunkModel(chunkBytes []byte) (Chunk[dsmrtest.Tx], error) {
	for _, c := range c36Table {
		if bytes.Equal(c.bytes, chunkBytes) {
			return c, nil
		}
	}
	return Chunk[dsmrtest.Tx]{}, errInvalidC36Bytes
}

var errInvalidC36Bytes = context.Canceled // any non-nil error

// ---- collaborators ----

// c36Verifier accepts every chunk and certificate (chunk/certificate validity is not the subject of C36).
type c36Verifier struct{}

func (c36Verifier) Verify(Chunk[dsmrtest.Tx]) error                            { return nil }
func (c36Verifier) SetMin(int64)                                               {}
func (c36Verifier) VerifyCertificate(context.Context, *ChunkCertificate) error { return nil }

type c36Rules struct{ limit uint64 }

func (r c36Rules) GetValidityWindow() int64                     { return 1 << 40 }
func (r c36Rules) GetMaxAccumulatedProducerChunkWeight() uint64 { return r.limit }
func (r c36Rules) GetRules(int64) Rules                         { return r }

func c36Producer(p int) ids.NodeID { return ids.NodeID{0xA0, byte(p + 1)} }

// c36Obs is everything the property says must survive a restart, for a universe of chunks.
type c36Obs struct {
	hasBytes [c36MaxChunks]bool // GetChunkBytes(expiry, id) succeeds
	bytesOK  [c36MaxChunks]bool // ... and returns the chunk's bytes
	pending  [c36MaxChunks]bool // chunk is pending (a certificate can be attached to it)
	overLim  [2]bool            // CheckRateLimit of an empty probe chunk of producer p fails under the symbolic limit
	min      int64
}

func c36Observe(s *ChunkStorage[dsmrtest.Tx], chunks []Chunk[dsmrtest.Tx]) c36Obs {
	var o c36Obs
	for i, c := range chunks {
		b, err := s.GetChunkBytes(c.Expiry, c.id)
		o.hasBytes[i] = err == nil
		if err == nil {
			o.bytesOK[i] = bytes.Equal(b, c.bytes)
		}
	}
	for p := 0; p < 2; p++ {
		probe := Chunk[dsmrtest.Tx]{UnsignedChunk: UnsignedChunk[dsmrtest.Tx]{Producer: c36Producer(p), Expiry: 1}}
		o.overLim[p] = s.CheckRateLimit(probe) != nil
	}
	o.min = s.minimumExpiry
	// last (it attaches certificates, which are not compared): pending <=> a certificate can be set
	for i, c := range chunks {
		cert := &ChunkCertificate{ChunkReference: ChunkReference{ChunkID: c.id, Producer: c.Producer, Expiry: c.Expiry}}
		o.pending[i] = s.SetChunkCert(context.Background(), c.id, cert) == nil
	}
	return o
}

// VerifC36Restart: any history, then reopen, then compare.
func VerifC36Restart() {
	c36Table = nil
	ctx := context.Background()
	maxOps := verifParam("maxOps", 3, 4)
	maxChunks := verifParam("maxChunks", 2, 3)
	rules := c36Rules{limit: verifU64("limit")}
	db := memdb.New()
	s, err := NewChunkStorage[dsmrtest.Tx](c36Verifier{}, db, rules)
	if err != nil {
		verifFail("setup-new-storage")
	}
	var chunks []Chunk[dsmrtest.Tx]
	// reference bookkeeping needed to respect the caller preconditions (not an oracle)
	var isPending [c36MaxChunks]bool
	var hasCert [c36MaxChunks]bool
	lastMin := int64(0)

	n := 1 + verifChoose("n", maxOps)
	for k := 0; k < n; k++ {
		switch verifChoose("op", 4) {
		case 3:
			// a chunk the node has already seen arrives again as a remote chunk (late or replayed chunk-signature
			// request; nothing in front of VerifyRemoteChunk filters these) while it has not expired: whether it is
			// still pending or was saved as accepted meanwhile, a restart must not change what the storage answers
			if len(chunks) == 0 {
				verifAssume(false)
			}
			i := verifChoose("again", len(chunks))
			verifAssume(chunks[i].Expiry >= lastMin)
			// (a chunk that is still pending WITHOUT a certificate is left out: VerifyRemoteChunk dereferences the nil
			// certificate there — a crash unrelated to restarts, recorded in notes/side-findings, not a C36 matter)
			if isPending[i] {
				verifAssume(hasCert[i])
			}
			if _, err := s.VerifyRemoteChunk(chunks[i]); err != nil {
				verifFail("verify-remote-chunk-again-error")
			}
			if !isPending[i] {
				verifReach("accepted-chunk-arrives-again")
			}
			isPending[i] = true
		case 0:
			// add a fresh chunk (each chunk is added once: documented caller precondition), locally with its
			// certificate or as a remote chunk without
			if len(chunks) >= maxChunks {
				verifAssume(false)
			}
			i := len(chunks)
			expiry := int64(10 + 10*verifChoose("expiry", 2))
			ntx := i // chunk sizes differ by construction
			txs := make([]dsmrtest.Tx, ntx)
			for j := range txs {
				txs[j] = dsmrtest.Tx{ID: ids.ID{0x77, byte(i), byte(j)}, Expiry: 1000, Sponsor: codec.Address{1}}
			}
			c, err := newChunk(UnsignedChunk[dsmrtest.Tx]{
				Producer: c36Producer(verifChoose("producer", 2)), Beneficiary: codec.Address{2, byte(i)}, Expiry: expiry, Txs: txs,
			}, [48]byte{}, [96]byte{})
			if err != nil {
				verifFail("setup-new-chunk")
			}
			if len(c.bytes) != c36ChunkBaseLen+c36TxLen*ntx {
				verifFail("setup-model-chunk-length")
			}
			chunks = append(chunks, c)
			if verifChoose("how", 2) == 0 {
				cert := &ChunkCertificate{ChunkReference: ChunkReference{ChunkID: c.id, Producer: c.Producer, Expiry: c.Expiry}}
				if err := s.AddLocalChunkWithCert(c, cert); err != nil {
					verifFail("add-local-chunk-error")
				}
				hasCert[i] = true
			} else {
				if _, err := s.VerifyRemoteChunk(c); err != nil {
					verifFail("verify-remote-chunk-error")
				}
			}
			isPending[i] = true
		case 1:
			// attach a certificate to a pending chunk
			if len(chunks) == 0 {
				verifAssume(false)
			}
			i := verifChoose("chunk", len(chunks))
			verifAssume(isPending[i])
			c := chunks[i]
			cert := &ChunkCertificate{ChunkReference: ChunkReference{ChunkID: c.id, Producer: c.Producer, Expiry: c.Expiry}}
			if err := s.SetChunkCert(ctx, c.id, cert); err != nil {
				verifFail("set-chunk-cert-error")
			}
			hasCert[i] = true
		case 2:
			// advance the minimum: save any subset of the pending chunks (the accepted block's chunks), expire the rest
			newMin := verifI64("min")
			verifAssume(newMin >= lastMin)
			lastMin = newMin
			var save []ids.ID
			for i := range chunks {
				if isPending[i] {
					if verifChoose("save", 2) == 1 {
						save = append(save, chunks[i].id)
						isPending[i] = false
						verifReach("saved")
					}
				}
			}
			if err := s.SetMin(newMin, save); err != nil {
				verifFail("set-min-error")
			}
			for i := range chunks {
				if isPending[i] {
					if chunks[i].Expiry < newMin {
						isPending[i] = false
						verifReach("expired")
					}
				}
			}
		}
	}
	_ = hasCert

	// reopen on the same database
	s2, err := NewChunkStorage[dsmrtest.Tx](c36Verifier{}, db, rules)
	if err != nil {
		verifFail("restart-open-error")
	}
	before := c36Observe(s, chunks)
	after := c36Observe(s2, chunks)
	for i := range chunks {
		if before.pending[i] {
			verifReach("pending-before-restart")
		}
		if before.hasBytes[i] {
			if !before.pending[i] {
				verifReach("accepted-before-restart")
			}
		}
		if !before.hasBytes[i] {
			verifReach("gone-before-restart")
		}
	}
	for i := range chunks {
		if before.pending[i] != after.pending[i] {
			if after.pending[i] {
				verifFail("restart-non-pending-chunk-pending-again")
			}
			verifFail("restart-pending-chunk-lost")
		}
		if before.hasBytes[i] != after.hasBytes[i] {
			verifFail("restart-chunk-availability-differs")
		}
		if before.hasBytes[i] {
			if !before.bytesOK[i] {
				verifFail("wrong-chunk-bytes-before-restart")
			}
			if !after.bytesOK[i] {
				verifFail("restart-chunk-bytes-differ")
			}
		}
	}
	for p := 0; p < 2; p++ {
		if before.overLim[p] != after.overLim[p] {
			verifFail("restart-pending-weight-differs")
		}
	}
	if before.min != after.min {
		verifFail("restart-minimum-expiry-differs")
	}
	verifReach("end")
}
