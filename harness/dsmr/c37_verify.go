package dsmr

// C37 — A DSMR chain never references an expired or already-included chunk.
//
// A real Node (x/dsmr/node.go: Verify, BuildBlock, Accept) with the real internal/validitywindow.TimeValidityWindow and
// the real ChunkStorage (on avalanchego memdb) is driven through every history of
//   - peer blocks (any certificate list from a small universe, duplicates allowed, any timestamp) offered to Verify,
//   - locally built blocks (BuildBlock on the tip at any timestamp), verified and appended,
//   - accepts of the oldest processing block (real Node.Accept),
// on one chain. A tiny reference model (per block: the certificate indices it references; parent links) states the
// property: a block accepted by Verify's structural checks, or produced by BuildBlock, references no certificate twice,
// none that an ancestor references, and none whose expiry is before the block timestamp.
//
// Two-worlds note (DESIGN 1.7a): ChunkCertificate.Verify needs BLS-signed warp messages. In the engine it is redirected
// to c37CertVerifyModel (returns nil: every certificate of the harness carries a valid quorum signature) and c37Sign is
// redirected to c37SignModel (empty signature). Natively c37Sign really signs the chunk reference with the BLS key of
// the harness's single validator and the real ChunkCertificate.Verify checks it against the validator set served by
// the harness chain state, so in both worlds Node.Verify returns nil exactly when every check accepted the block.
// Chunk encoding and block encoding (codec.LinearCodec, reflection) are redirected as in C36 (c36NewChunkModel /
// c36ParseChunkModel / c37MarshalIntoModel); block IDs are harness seeds in both worlds, and nothing in the oracle
// depends on encoded bytes or signatures.

import (
	"context"
	"errors"

	"github.com/ava-labs/avalanchego/database/memdb"
	"github.com/ava-labs/avalanchego/ids"
	"github.com/ava-labs/avalanchego/trace"
	"github.com/ava-labs/avalanchego/utils/crypto/bls"
	"github.com/ava-labs/avalanchego/utils/crypto/bls/signer/localsigner"
	"github.com/ava-labs/avalanchego/utils/logging"
	"github.com/ava-labs/avalanchego/utils/set"
	"github.com/ava-labs/avalanchego/utils/wrappers"
	"github.com/ava-labs/avalanchego/vms/platformvm/warp"

	"github.com/ava-labs/hypersdk/codec"
	"github.com/ava-labs/hypersdk/internal/validitywindow"
	"github.com/ava-labs/hypersdk/x/dsmr/dsmrtest"
)

const c37MaxCerts = 3
const c37MaxBlocks = 6

// ---- engine-only models ----

func c37CertVerifyModel(_ *ChunkCertificate, _ context.Context, _ ChainState) error { return nil }

// c37MarshalIntoModel replaces codec.LinearCodec.MarshalInto in the engine (block bytes are not used by the check).
func c37MarshalIntoModel(_ any, _ any, _ *wrappers.Packer) error { return nil }

func c37SignModel(ChunkReference) *warp.BitSetSignature { return &warp.BitSetSignature{} }

// ---- collaborators ----

const c37NetworkID = uint32(1)

var c37ChainID = ids.ID{9}
var c37ValidatorID = ids.NodeID{0xA0, 1}

var errC37 = errors.New("harness: error")

// c37Key: BLS key of the single validator (native world only).
var c37SK *localsigner.LocalSigner

func c37Key() *localsigner.LocalSigner {
	if c37SK == nil {
		sk, err := localsigner.New()
		if err != nil {
			panic(err)
		}
		c37SK = sk
	}
	return c37SK
}

// c37Sign returns a valid quorum signature for a chunk reference (native body; engine: c37SignModel).
func c37Sign(ref ChunkReference) *warp.BitSetSignature {
	packer := wrappers.Packer{MaxSize: MaxMessageSize}
	if err := codec.LinearCodec.MarshalInto(ref, &packer); err != nil {
		panic(err)
	}
	msg, err := warp.NewUnsignedMessage(c37NetworkID, c37ChainID, packer.Bytes)
	if err != nil {
		panic(err)
	}
	sigBytes, err := warp.NewSigner(c37Key(), c37NetworkID, c37ChainID).Sign(msg)
	if err != nil {
		panic(err)
	}
	sig := &warp.BitSetSignature{Signers: set.NewBits(0).Bytes()}
	copy(sig.Signature[:], sigBytes)
	return sig
}

type c37ChainState struct{}

func (c37ChainState) GetNetworkID() uint32 { return c37NetworkID }
func (c37ChainState) GetSubnetID() ids.ID  { return ids.ID{} }
func (c37ChainState) GetChainID() ids.ID   { return c37ChainID }

// GetCanonicalValidatorSet is only called by the real ChunkCertificate.Verify, i.e. natively.
func (c37ChainState) GetCanonicalValidatorSet(context.Context) (warp.CanonicalValidatorSet, error) {
	pk := c37Key().PublicKey()
	return warp.CanonicalValidatorSet{
		Validators:  []*warp.Validator{{PublicKey: pk, PublicKeyBytes: bls.PublicKeyToUncompressedBytes(pk), Weight: 1, NodeIDs: []ids.NodeID{c37ValidatorID}}},
		TotalWeight: 1,
	}, nil
}
func (c37ChainState) IsNodeValidator(context.Context, ids.NodeID, uint64) (bool, error) {
	return true, nil
}
func (c37ChainState) GetQuorumNum() uint64 { return 1 }
func (c37ChainState) GetQuorumDen() uint64 { return 1 }

// c37Index is the chain index of the validity window: every verified block by ID.
type c37Index struct {
	m map[ids.ID]validityWindowBlock
}

func (ix *c37Index) GetExecutionBlock(_ context.Context, id ids.ID) (validitywindow.ExecutionBlock[*emapChunkCertificate], error) {
	b, ok := ix.m[id]
	if !ok {
		return nil, errC37
	}
	return b, nil
}

// c37Blk: reference-model view of a block on the chain.
type c37Blk struct {
	blk   Block
	certs []int // indices into the certificate universe
}

func c37BlockID(height, salt int) ids.ID { return ids.ID{0xB0, byte(height), byte(salt)} }

// c37Check states the property for one block (content `certs`, timestamp ts) on top of chain[0..len).
func c37Check(where string, chain []c37Blk, certs []int, ts int64, expiry *[c37MaxCerts]int64) {
	var inBlock [c37MaxCerts]bool
	for _, j := range certs {
		if inBlock[j] {
			verifFail(where + "-same-chunk-twice-in-block")
		}
		inBlock[j] = true
	}
	for _, anc := range chain {
		for _, j := range anc.certs {
			if inBlock[j] {
				if expiry[j] < ts {
					// expired and already included: reported as the expiry defect (one label per defect)
					verifFail(where + "-expired-chunk")
				}
				verifFail(where + "-chunk-already-in-ancestor")
			}
		}
	}
	for _, j := range certs {
		if expiry[j] < ts {
			verifFail(where + "-expired-chunk")
		}
	}
}

func VerifC37Chain() {
	c36Table = nil
	ctx := context.Background()
	nCerts := verifParam("certs", 2, 3)
	maxSteps := verifParam("maxSteps", 4, 4)
	maxPerBlock := verifParam("maxCertsPerBlock", 2, 3)
	window := verifI64("window")
	verifAssume(window >= 0)
	verifAssume(window <= 1<<40)

	// certificate universe: every chunk is in the local storage with its certificate (so that Accept never has to fetch)
	db := memdb.New()
	storage, err := NewChunkStorage[dsmrtest.Tx](c36Verifier{}, db, c36Rules{limit: 1 << 60})
	if err != nil {
		verifFail("setup-new-storage")
	}
	var expiry [c37MaxCerts]int64
	var certs [c37MaxCerts]*ChunkCertificate
	created := 0

	genesis := Block{blkID: c37BlockID(0, 0)}
	index := &c37Index{m: map[ids.ID]validityWindowBlock{}}
	index.m[genesis.blkID] = NewValidityWindowBlock(genesis)
	tvw, err := validitywindow.NewTimeValidityWindow[*emapChunkCertificate](ctx, logging.NoLog{}, trace.Noop, index,
		NewValidityWindowBlock(genesis), func(int64) int64 { return window })
	if err != nil {
		verifFail("setup-validity-window")
	}
	node := &Node[dsmrtest.Tx]{
		ID: c36Producer(0), chainState: c37ChainState{}, LastAccepted: genesis, storage: storage,
		log: logging.NoLog{}, validityWindow: tvw, ruleFactory: c36Rules{limit: 1 << 60},
	}

	chain := []c37Blk{} // verified blocks above genesis, in order
	accepted := 0       // chain[:accepted] are accepted
	tip := genesis
	n := 1 + verifChoose("n", maxSteps)
	for k := 0; k < n; k++ {
		switch verifChoose("op", 4) {
		case 3:
			// a new chunk gets its certificate and reaches the local storage. Validators only sign chunks whose expiry is
			// within the validity window of their last accepted block (ChunkVerifier.Verify / VerifyTimestamp).
			verifAssume(created < nCerts)
			j := created
			expiry[j] = verifI64("expiry")
			verifAssume(expiry[j] >= node.LastAccepted.Timestamp)
			verifAssume(expiry[j] <= node.LastAccepted.Timestamp+window)
			c, err := newChunk(UnsignedChunk[dsmrtest.Tx]{
				Producer: c36Producer(0), Beneficiary: codec.Address{3, byte(j)}, Expiry: expiry[j],
				Txs: []dsmrtest.Tx{{ID: ids.ID{0x78, byte(j)}, Expiry: 1000, Sponsor: codec.Address{1}}},
			}, [48]byte{}, [96]byte{})
			if err != nil {
				verifFail("setup-new-chunk")
			}
			ref := ChunkReference{ChunkID: c.id, Producer: c.Producer, Expiry: c.Expiry}
			certs[j] = &ChunkCertificate{ChunkReference: ref, Signature: c37Sign(ref)}
			if err := storage.AddLocalChunkWithCert(c, certs[j]); err != nil {
				verifFail("setup-add-chunk")
			}
			created++
		case 0:
			// a peer's block on the tip: any list of existing certificates, any timestamp
			if len(chain) >= c37MaxBlocks {
				verifAssume(false)
			}
			verifAssume(created > 0)
			ts := verifI64("ts")
			verifAssume(ts > tip.Timestamp)
			verifAssume(ts <= 1<<40)
			m := 1 + verifChoose("ncerts", maxPerBlock)
			idx := make([]int, m)
			cs := make([]*ChunkCertificate, m)
			for i := range idx {
				idx[i] = verifChoose("cert", created)
				cs[i] = certs[idx[i]]
			}
			blk := Block{
				BlockHeader: BlockHeader{ParentID: tip.GetID(), Height: tip.Height + 1, Timestamp: ts},
				ChunkCerts:  cs, blkID: c37BlockID(len(chain)+1, 1),
			}
			err := node.Verify(ctx, tip, blk)
			if errors.Is(err, ErrInvalidWarpSignature) {
				verifFail("setup-harness-certificate-signature-rejected")
			}
			if err == nil {
				verifReach("verified")
				c37Check("verify", chain, idx, ts, &expiry)
				chain = append(chain, c37Blk{blk, idx})
				index.m[blk.blkID] = NewValidityWindowBlock(blk)
				tip = blk
			} else {
				verifReach("rejected")
			}
		case 1:
			// build on the tip
			if len(chain) >= c37MaxBlocks {
				verifAssume(false)
			}
			ts := verifI64("ts")
			verifAssume(ts > tip.Timestamp)
			verifAssume(ts <= 1<<40)
			blk, err := node.BuildBlock(ctx, tip, ts)
			if err == nil {
				verifReach("built")
				idx := make([]int, len(blk.ChunkCerts))
				for i, cc := range blk.ChunkCerts {
					idx[i] = -1
					for j := 0; j < created; j++ {
						if cc.ChunkID == certs[j].ChunkID {
							idx[i] = j
						}
					}
					if idx[i] < 0 {
						verifFail("build-unknown-certificate")
					}
				}
				c37Check("build", chain, idx, ts, &expiry)
				blk.blkID = c37BlockID(len(chain)+1, 2) // harness seed ID in both worlds
				chain = append(chain, c37Blk{blk, idx})
				index.m[blk.blkID] = NewValidityWindowBlock(blk)
				tip = blk
			}
		case 2:
			// accept the oldest processing block
			verifAssume(accepted < len(chain))
			if _, err := node.Accept(ctx, chain[accepted].blk); err != nil {
				verifFail("accept-error")
			}
			accepted++
			verifReach("accepted")
		}
	}
	verifReach("end")
}
