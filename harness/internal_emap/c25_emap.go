package emap

import (
	"github.com/ava-labs/avalanchego/ids"
	"github.com/ava-labs/avalanchego/utils/set"
)

type c25Item struct {
	id  ids.ID
	exp int64
}

func (i *c25Item) GetID() ids.ID    { return i.id }
func (i *c25Item) GetExpiry() int64 { return i.exp }

const c25MaxIDs = 4

func c25id(k int) ids.ID { return ids.ID{byte(k + 1), 0xee} }

// VerifC25EMap: the real EMap (on the real heap.Heap / container/heap) under every history of add and set-minimum over
// up to `ids` IDs with symbolic non-zero 64-bit expiries (equal expiries share a bucket); after every operation the
// membership answers (Any per ID, Contains over all IDs) are compared with the reference set.
func VerifC25EMap() {
	maxOps := verifParam("maxOps", 5, 6)
	nids := verifParam("ids", 3, 4)
	batchAdds := verifParam("batchAdds", 0, 1)
	e := NewEMap[*c25Item]()
	var present [c25MaxIDs]bool
	var exp [c25MaxIDs]int64
	probes := make([]*c25Item, nids)
	for i := range probes {
		probes[i] = &c25Item{id: c25id(i)} // membership is by ID only
	}
	used := 0
	n := 1 + verifChoose("n", maxOps)
	for step := 0; step < n; step++ {
		op := verifChoose("op", 2+batchAdds)
		switch op {
		case 0, 2: // add one item, or (op 2) two items in one call
			cnt := 1 + op/2
			var batch []*c25Item
			for b := 0; b < cnt; b++ {
				lim := used + 1
				if lim > nids {
					lim = nids
				}
				k := verifChoose("addid", lim)
				x := verifI64("exp")
				verifAssume(x != 0) // entries with expiry 0 are exempt (never tracked, by design)
				batch = append(batch, &c25Item{id: c25id(k), exp: x})
				if k == used {
					used++
				}
				if !present[k] {
					present[k], exp[k] = true, x
				} else {
					verifReach("add-duplicate")
				}
			}
			e.Add(batch)
		case 1: // raise the minimum
			t := verifI64("min")
			out := e.SetMin(t)
			for _, id := range out {
				k := int(id[0]) - 1
				if k < 0 || k >= c25MaxIDs || id != c25id(k) || !present[k] {
					verifFail("setmin-returned-absent-id")
				}
				if exp[k] >= t {
					verifFail("setmin-returned-unexpired")
				}
				present[k] = false
				verifReach("expired")
			}
			for i := 0; i < c25MaxIDs; i++ {
				if present[i] {
					if exp[i] < t {
						verifFail("setmin-kept-expired")
					}
				}
			}
		}
		any := false
		for i := 0; i < nids; i++ {
			if e.Any(probes[i:i+1]) != present[i] {
				verifFail("any-wrong")
			}
			if present[i] {
				any = true
			}
		}
		if e.Any(probes) != any {
			verifFail("any-of-all-wrong")
		}
		bits := e.Contains(probes, set.NewBits(), false)
		for i := 0; i < nids; i++ {
			if bits.Contains(i) != present[i] {
				verifFail("contains-wrong")
			}
		}
	}
	verifReach("end")
}
