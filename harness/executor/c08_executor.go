package executor

import (
	"errors"
	"sync"

	"github.com/ava-labs/hypersdk/state"
)

const c08MaxTasks = 4
const c08MaxKeys = 3

var errC08 = errors.New("harness: task failed")

func c08key(k int) string { return string([]byte{byte(k), 0, 1}) }

// VerifC08: the real Executor with 1..2 (thorough: ..3) workers runs N tasks over K keys (shapes below) whose key sets (per key: absent, Read,
// Write, or Allocate|Write) are arbitrary, inserted into the state.Keys map in an arbitrary order (the engine iterates
// maps in insertion order, so this covers the iteration orders of Run's `range keys`), with at most one disturbance
// (one task fails, or Stop is called after the k-th Run), under every schedule within the preemption bound.
func VerifC08() {
	// (tasks, keys) shapes: quick {3 tasks x 1 key, 2 x 2, 3 x 2 without disturbances}; thorough {3 x 1, 2 x 2, 3 x 2, 4 x 1}
	shapes := [4][2]int{{3, 1}, {2, 2}, {3, 2}, {4, 1}}
	si := verifChoose("shape", verifParam("shapes", 3, 4))
	shape := shapes[si]
	nTasks, nKeys := shape[0], shape[1]
	// quick tier: the 3 x 2 shape is explored without disturbances and with 2 workers only
	focused := si == 2 && verifParam("focusThreeByTwo", 1, 1) == 1
	workers := 2
	if !focused {
		workers = 1 + verifChoose("workers", verifParam("maxWorkers", 2, 2))
	}
	perms := [3]state.Permissions{state.Read, state.Write, state.Allocate | state.Write}
	nPerm := verifParam("permKinds", 3, 4) // absent, Read, Write (, Allocate|Write)
	e := New(nTasks, workers, 1000, nil)

	var mu sync.Mutex
	clock := 0
	var start, end, runs [c08MaxTasks]int
	var keysOf [c08MaxTasks][c08MaxKeys]state.Permissions
	var has [c08MaxTasks][c08MaxKeys]bool

	disturb := 0
	if !focused {
		disturb = verifChoose("disturbance", 1+2*nTasks)
	} // 0 none; 1..n: task d-1 fails; n+1..2n: Stop after Run #(d-n)
	failIdx, stopAfter := -1, -1
	if disturb >= 1 {
		if disturb <= nTasks {
			failIdx = disturb - 1
		} else {
			stopAfter = disturb - nTasks - 1
		}
	}
	for i := 0; i < nTasks; i++ {
		ks := state.Keys{}
		var pk [c08MaxKeys]int
		present := 0
		for k := 0; k < nKeys; k++ {
			if focused && i == 0 {
				pk[k] = 1 + verifChoose("perm", nPerm-1) // focused shape: the first task declares every key
			} else {
				pk[k] = verifChoose("perm", nPerm)
			}
			if pk[k] > 0 {
				present++
			}
		}
		first := 0
		if present > 1 {
			first = verifChoose("firstKey", nKeys) // rotation of the insertion (= iteration) order
		}
		for kk := 0; kk < nKeys; kk++ {
			k := (first + kk) % nKeys
			if c := pk[k]; c > 0 {
				ks[c08key(k)] = perms[c-1]
				keysOf[i][k] = perms[c-1]
				has[i][k] = true
			}
		}
		i := i
		e.Run(ks, func() error {
			mu.Lock()
			runs[i]++
			clock++
			start[i] = clock
			mu.Unlock()
			verifYield()
			mu.Lock()
			clock++
			end[i] = clock
			mu.Unlock()
			if i == failIdx {
				return errC08
			}
			return nil
		})
		if disturb != 0 {
			verifYield() // the workers may get ahead of the producer (after an error they skip what they dequeue)
		}
		if i == stopAfter {
			e.Stop()
		}
	}
	err := e.Wait()
	failedRan := false
	if failIdx >= 0 {
		if runs[failIdx] > 0 {
			failedRan = true
		}
	}
	if err == nil {
		if failedRan {
			verifFail("wait-nil-although-a-task-failed")
		}
		if stopAfter >= 0 {
			verifFail("wait-nil-although-stopped")
		}
	} else {
		if errors.Is(err, errC08) {
			if !failedRan {
				verifFail("wait-reports-failure-of-task-that-never-ran")
			}
			verifReach("task-failure-reported")
		} else if errors.Is(err, ErrStopped) {
			if stopAfter < 0 {
				verifFail("wait-reports-stopped-without-stop")
			}
			verifReach("stop-reported")
		} else {
			verifFail("wait-reports-unknown-error")
		}
	}
	for i := 0; i < nTasks; i++ {
		if runs[i] > 1 {
			verifFail("task-ran-twice")
		}
		if runs[i] == 0 {
			if err == nil {
				verifFail("task-skipped-without-error")
			}
			continue
		}
		if end[i] == 0 {
			verifFail("wait-returned-before-task-finished")
		}
		for j := i + 1; j < nTasks; j++ {
			if runs[j] == 0 {
				continue
			}
			conflict := false
			for k := 0; k < nKeys; k++ {
				if has[i][k] {
					if has[j][k] {
						if keysOf[i][k] != state.Read {
							conflict = true
						}
						if keysOf[j][k] != state.Read {
							conflict = true
						}
					}
				}
			}
			if conflict {
				if end[i] > start[j] {
					verifFail("conflicting-tasks-overlap-or-out-of-order")
				}
				verifReach("conflict-ordered")
			}
		}
	}
	verifReach("end")
}
