package keys

// Engine self-test: Go semantics micro-cases whose observations must be identical in the symbolic interpreter and in the
// natively compiled code (compared by the path-directed translator validation of every run of `gosym check SELFTEST`).

import (
	"errors"
	"sort"
	"strings"
)

type stPoint struct{ X, Y int }

type stBox struct {
	P   stPoint
	Arr [3]byte
	S   []int
}

type stShape interface{ Area() int }

type stRect struct{ W, H int }
type stSq struct{ S int }

func (r stRect) Area() int { return r.W * r.H }
func (s *stSq) Area() int  { return s.S * s.S }
func (s *stSq) Grow()      { s.S++ }

var errSt = errors.New("selftest")

func stDefer() (r int) {
	defer func() {
		if x := recover(); x != nil {
			r += 100
		}
	}()
	defer func() { r *= 2 }()
	r = 5
	var m map[string]int
	m["x"] = 1 // panics
	return 7
}

func stVariadic(xs ...int) int {
	s := 0
	for _, x := range xs {
		s += x
	}
	return s + len(xs)*1000
}

func stMulti() (int, string, error) { return 3, "abc", errSt }

func VerifSelfTest() {
	o := func(tag string, v int) { verifObserve(tag, uint64(int64(v))) }
	sym := int(verifU8("x")) // one symbolic input so that the path has a model
	verifAssume(sym == 7)

	// aggregate assignment keeps element/field addresses valid
	id := [4]byte{2}
	p0 := &id[0]
	id = [4]byte{1}
	o("arr-assign-elem-ptr", int(*p0))
	*p0 = 9
	o("arr-elem-ptr-write", int(id[0]))
	b := stBox{P: stPoint{1, 2}}
	px := &b.P.X
	b.P = stPoint{5, 6}
	o("struct-assign-field-ptr", *px)
	b2 := b
	b2.P.X = 77
	b2.Arr[1] = 8
	o("struct-copy-independent", b.P.X*1000+int(b.Arr[1]))
	arr2 := b.Arr
	arr2[0] = 4
	o("array-copy-independent", int(b.Arr[0]))
	// slices alias, append within capacity writes through
	s := make([]int, 2, 4)
	t := append(s, 10)
	u := append(s, 20)
	o("append-shared-backing", t[2])
	_ = u
	s2 := []int{1, 2, 3, 4, 5}
	copy(s2[1:], s2[:4])
	o("copy-overlap", s2[0]*10000+s2[1]*1000+s2[2]*100+s2[3]*10+s2[4])
	sub := s2[1:3:4]
	o("slice3-len-cap", len(sub)*10+cap(sub))
	// swap through phi nodes
	a, c := 1, 2
	for i := 0; i < 5; i++ {
		a, c = c, a+c
	}
	o("fib-swap", a*100+c)
	// closures capture variables, per-iteration loop variables
	var fs []func() int
	for i := 0; i < 3; i++ {
		fs = append(fs, func() int { return i * i })
	}
	o("closure-per-iteration", fs[0]()+fs[1]()*10+fs[2]()*100)
	cnt := 0
	inc := func() { cnt++ }
	inc()
	inc()
	o("closure-shared-var", cnt)
	// defer / recover / named results
	o("defer-recover-named", stDefer())
	// interfaces, pointer receivers, type switches
	sq := &stSq{3}
	shapes := []stShape{stRect{2, 5}, sq}
	sq.Grow()
	tot := 0
	for _, sh := range shapes {
		switch v := sh.(type) {
		case stRect:
			tot += v.Area()
		case *stSq:
			tot += v.Area() * 100
		}
	}
	o("iface-dispatch", tot)
	g := sq.Area
	sq.Grow()
	o("method-value-ptr", g())
	r := stRect{2, 3}
	g2 := r.Area
	r.W = 10
	o("method-value-copy", g2())
	// maps of structs, delete, missing keys, iteration count
	m := map[string]stPoint{"a": {1, 1}}
	pt := m["a"]
	pt.X = 50
	o("map-value-copy", m["a"].X)
	m["b"] = stPoint{2, 2}
	delete(m, "a")
	_, ok := m["a"]
	n := 0
	for range m {
		n++
	}
	o("map-delete", n*10+map[bool]int{true: 1, false: 0}[ok])
	// integer semantics
	var i8 int8 = -128
	o("int8-neg-wrap", int(-i8))
	o("int8-div", int(i8/-1))
	var u8 uint8 = 200
	o("uint8-add-wrap", int(u8+100))
	o("signed-div-trunc", (-7)/2*10+(-7)%2)
	o("shift-large", int(uint32(1)<<(uint(sym)+30)))
	o("sign-extend", int(int64(int8(sym+250))))
	o("and-not", 0xff&^0x0f)
	var u64 uint64 = 1<<63 + 5
	o("u64-to-i64", int(int64(u64)>>60))
	// strings and bytes
	str := "hello"
	bs := []byte(str)
	bs[0] = 'j'
	o("string-immutable", int(str[0])*1000+int(bs[0]))
	o("string-compare", map[bool]int{true: 1, false: 0}["abc" < "abd"]*10+strings.Index("hayneedle", "need"))
	o("string-concat-len", len(str+string(bs[:2])))
	// multi-value, variadic
	x, y, e := stMulti()
	o("multi-return", x*10+len(y)+map[bool]int{true: 100, false: 0}[errors.Is(e, errSt)])
	o("variadic", stVariadic(1, 2, 3)+stVariadic())
	// labelled break / continue, switch fallthrough
	acc := 0
outer:
	for i := 0; i < 4; i++ {
		for j := 0; j < 4; j++ {
			if j == 2 {
				continue outer
			}
			if i == 3 {
				break outer
			}
			acc += i*10 + j
		}
	}
	o("labels", acc)
	sw := 0
	switch sym {
	case 7:
		sw += 1
		fallthrough
	case 8:
		sw += 10
	case 9:
		sw += 100
	}
	o("fallthrough", sw)
	// sort with a closure over a slice of structs
	pts := []stPoint{{3, 0}, {1, 1}, {2, 2}, {1, 3}}
	sort.SliceStable(pts, func(i, j int) bool { return pts[i].X < pts[j].X })
	o("sort-stable", pts[0].Y*1000+pts[1].Y*100+pts[2].Y*10+pts[3].Y)
	// pointer identity and nil handling
	var np *stPoint
	q1, q2 := &stPoint{1, 2}, &stPoint{1, 2}
	o("ptr-identity", map[bool]int{true: 1, false: 0}[q1 == q2]*10+map[bool]int{true: 1, false: 0}[np == nil])
	// array of arrays / nested aggregate element addresses
	var grid [2][2]int
	row := &grid[1]
	grid = [2][2]int{{1, 2}, {3, 4}}
	row[1] = 40
	o("nested-array-ptr", grid[1][1]+grid[1][0])
	verifReach("end")
}
