package indexer

// C31 — The indexer serves exactly the recent accepted blocks and transaction results.
//
// The real Indexer (api/indexer/indexer.go: NewIndexer/initBlocks/Notify/insertBlockIntoCache/storeBlock/GetBlock*/
// GetTransaction/GetLatestBlock) is driven through every history of accepted-block notifications (consecutive heights,
// height gaps, repeated delivery of the last block) and restarts (Close + NewIndexer on the same directory), for small
// block windows. Blocks are real chain.ExecutedBlock values built through chain.NewTransaction / NewStatelessBlock /
// NewExecutedBlock with a harness action/auth and re-read by the real chain.UnmarshalExecutedBlock with a harness
// parser, so the canoto encoding runs in both worlds. After every step a reference model (the list of notified blocks
// and the last height) decides every answer: heights in (last-window, last] that were notified are served with their
// block, transactions, results and timestamps; everything else is reported as absent; the latest block is the last
// notified one. A restart is a no-op of the model, so it must not change any answer.
//
// Two-worlds note (DESIGN 1.7a): the store is internal/pebble.Database. Natively the real pebble database in a temporary
// directory runs; in the engine pebble.New and the five Database methods the indexer uses (NewIteratorWithPrefix,
// DeleteRange, NewBatch, Close) are redirected to the ordered-map model below (c31Pebble*Model: sorted keys, prefix
// iteration in key order, DeleteRange over [start,end), batches applied in order on Write). The history contains no
// symbolic data at all (heights, gaps and windows are choices), so both worlds execute exactly the same sequence.

import (
	"bytes"
	"context"
	"errors"
	"os"

	"github.com/ava-labs/avalanchego/database"
	"github.com/ava-labs/avalanchego/ids"
	"github.com/prometheus/client_golang/prometheus"

	"github.com/ava-labs/hypersdk/chain"
	"github.com/ava-labs/hypersdk/codec"
	"github.com/ava-labs/hypersdk/fees"
	"github.com/ava-labs/hypersdk/internal/pebble"
	"github.com/ava-labs/hypersdk/state"
)

// ---- engine-only model of internal/pebble.Database ----

type c31KV struct{ k, v []byte }

// c31Store: the persistent content of the one database directory of a run (survives Close/New).
var c31Store []c31KV // sorted by key

func c31Find(k []byte) (int, bool) {
	for i := range c31Store {
		c := bytes.Compare(c31Store[i].k, k)
		if c == 0 {
			return i, true
		}
		if c > 0 {
			return i, false
		}
	}
	return len(c31Store), false
}

func c31Put(k, v []byte) {
	i, ok := c31Find(k)
	if ok {
		c31Store[i].v = v
		return
	}
	c31Store = append(c31Store, c31KV{})
	copy(c31Store[i+1:], c31Store[i:])
	c31Store[i] = c31KV{k, v}
}

func c31Del(k []byte) {
	if i, ok := c31Find(k); ok {
		c31Store = append(c31Store[:i], c31Store[i+1:]...)
	}
}

func c31PebbleNewModel(_ string, _ pebble.Config, _ prometheus.Registerer) (*pebble.Database, error) {
	return &pebble.Database{}, nil
}

func c31PebbleCloseModel(_ *pebble.Database) error { return nil }

func c31PebbleDeleteRangeModel(_ *pebble.Database, start, end []byte) error {
	var kept []c31KV
	for _, e := range c31Store {
		if bytes.Compare(e.k, start) >= 0 && bytes.Compare(e.k, end) < 0 {
			continue
		}
		kept = append(kept, e)
	}
	c31Store = kept
	return nil
}

type c31Op struct {
	del  bool
	k, v []byte
}

type c31Batch struct{ ops []c31Op }

func (b *c31Batch) Put(k, v []byte) error {
	b.ops = append(b.ops, c31Op{false, bytes.Clone(k), bytes.Clone(v)})
	return nil
}
func (b *c31Batch) Delete(k []byte) error {
	b.ops = append(b.ops, c31Op{true, bytes.Clone(k), nil})
	return nil
}
func (b *c31Batch) Size() int { return len(b.ops) }
func (b *c31Batch) Write() error {
	for _, o := range b.ops {
		if o.del {
			c31Del(o.k)
		} else {
			c31Put(o.k, o.v)
		}
	}
	return nil
}
func (b *c31Batch) Reset()                                      { b.ops = nil }
func (b *c31Batch) Replay(database.KeyValueWriterDeleter) error { return nil }
func (b *c31Batch) Inner() database.Batch                       { return b }

// direct (non-batch) operations, so that an indexer that writes without a batch is modelled as well
func c31PebblePutModel(_ *pebble.Database, k, v []byte) error {
	c31Put(append([]byte{}, k...), append([]byte{}, v...))
	return nil
}
func c31PebbleDeleteModel(_ *pebble.Database, k []byte) error { c31Del(k); return nil }
func c31PebbleGetModel(_ *pebble.Database, k []byte) ([]byte, error) {
	if i, ok := c31Find(k); ok {
		return append([]byte{}, c31Store[i].v...), nil
	}
	return nil, database.ErrNotFound
}
func c31PebbleHasModel(_ *pebble.Database, k []byte) (bool, error) {
	_, ok := c31Find(k)
	return ok, nil
}

func c31PebbleNewBatchModel(_ *pebble.Database) database.Batch { return &c31Batch{} }

type c31Iter struct {
	items []c31KV
	pos   int
}

func (it *c31Iter) Next() bool {
	if it.pos+1 >= len(it.items) {
		it.pos = len(it.items)
		return false
	}
	it.pos++
	return true
}
func (it *c31Iter) Error() error { return nil }
func (it *c31Iter) Key() []byte {
	if it.pos < 0 || it.pos >= len(it.items) {
		return nil
	}
	return it.items[it.pos].k
}
func (it *c31Iter) Value() []byte {
	if it.pos < 0 || it.pos >= len(it.items) {
		return nil
	}
	return it.items[it.pos].v
}
func (it *c31Iter) Release() {}

func c31PebbleIterPrefixModel(_ *pebble.Database, prefix []byte) database.Iterator {
	it := &c31Iter{pos: -1}
	for _, e := range c31Store {
		if bytes.HasPrefix(e.k, prefix) {
			it.items = append(it.items, e)
		}
	}
	return it
}

// c31TempDir / c31RemoveDir: the database directory (native bodies; engine: c31TempDirModel / c31RemoveDirModel).
func c31TempDir() string {
	dir, err := os.MkdirTemp("", "verif-c31-")
	if err != nil {
		panic(err)
	}
	return dir
}
func c31RemoveDir(dir string)    { _ = os.RemoveAll(dir) }
func c31TempDirModel() string    { return "c31" }
func c31RemoveDirModel(_ string) {}

// ---- harness action / auth / parser (real canoto round trip of blocks in both worlds) ----

type c31Action struct{ seed byte }

func (c31Action) GetTypeID() uint8                           { return 1 }
func (c31Action) ValidRange(chain.Rules) (int64, int64)      { return -1, -1 }
func (a c31Action) Bytes() []byte                            { return []byte{1, a.seed} }
func (c31Action) ComputeUnits(chain.Rules) uint64            { return 1 }
func (c31Action) StateKeys(codec.Address, ids.ID) state.Keys { return state.Keys{} }
func (c31Action) Execute(context.Context, chain.Rules, state.Mutable, int64, codec.Address, ids.ID) ([]byte, error) {
	return nil, nil
}

type c31Auth struct{ seed byte }

func (c31Auth) GetTypeID() uint8                      { return 0 }
func (c31Auth) ValidRange(chain.Rules) (int64, int64) { return -1, -1 }
func (a c31Auth) Bytes() []byte                       { return []byte{0, a.seed} }
func (c31Auth) ComputeUnits(chain.Rules) uint64       { return 1 }
func (c31Auth) Verify(context.Context, []byte) error  { return nil }
func (a c31Auth) Actor() codec.Address                { return codec.Address{1, a.seed} }
func (a c31Auth) Sponsor() codec.Address              { return codec.Address{1, a.seed} }

var errC31Parse = errors.New("harness: unparsable action/auth")

type c31Parser struct{}

func (c31Parser) ParseAction(b []byte) (chain.Action, error) {
	if len(b) != 2 || b[0] != 1 {
		return nil, errC31Parse
	}
	return c31Action{b[1]}, nil
}

func (c31Parser) ParseAuth(b []byte) (chain.Auth, error) {
	if len(b) != 2 || b[0] != 0 {
		return nil, errC31Parse
	}
	return c31Auth{b[1]}, nil
}

// c31Block builds the accepted block of a height: h%3 transactions, results derived from the height.
func c31Block(h uint64) *chain.ExecutedBlock {
	ntx := int(h % 3)
	txs := make([]*chain.Transaction, ntx)
	results := make([]*chain.Result, ntx)
	for j := 0; j < ntx; j++ {
		seed := byte(16*h) + byte(j)
		tx, err := chain.NewTransaction(chain.Base{Timestamp: int64(1000 * (h + 1)), ChainID: ids.ID{5}, MaxFee: 10 + h},
			[]chain.Action{c31Action{seed}}, c31Auth{seed})
		if err != nil {
			verifFail("setup-new-transaction")
		}
		txs[j] = tx
		results[j] = &chain.Result{Success: j == 0, Error: []byte{}, Outputs: [][]byte{{byte(h), byte(j)}}, Fee: 100*h + uint64(j)}
	}
	sb, err := chain.NewStatelessBlock(ids.ID{0xBB, byte(h)}, int64(500+7*h), h, txs, ids.ID{0x55, byte(h)}, nil)
	if err != nil {
		verifFail("setup-new-block")
	}
	return chain.NewExecutedBlock(sb, results, fees.Dimensions{1, 2, 3, 4, 5}, fees.Dimensions{uint64(h), 0, 0, 0, 1})
}

// c31Check compares every answer of the indexer with the reference model.
func c31Check(ix *Indexer, where string, notified []*chain.ExecutedBlock, window uint64, maxHeight uint64) {
	var last *chain.ExecutedBlock
	if len(notified) > 0 {
		last = notified[len(notified)-1]
	}
	latest, err := ix.GetLatestBlock()
	if last == nil {
		if err == nil {
			verifFail(where + "-latest-block-without-any-accepted")
		}
	} else {
		if err != nil {
			verifFail(where + "-latest-block-missing")
		}
		if latest.Block.GetID() != last.Block.GetID() {
			verifFail(where + "-latest-block-wrong")
		}
	}
	// per height: the accepted block of that height (heights are notified in non-decreasing order, one block per height)
	for h := uint64(0); h <= maxHeight+1; h++ {
		var want *chain.ExecutedBlock
		for _, b := range notified {
			if b.Block.Hght == h {
				want = b
			}
		}
		retained := false
		if want != nil {
			// h in (last-window, last]
			retained = h+window > last.Block.Hght
		}
		got, err := ix.GetBlockByHeight(h)
		if retained {
			verifReach("served")
			if err != nil {
				verifFail(where + "-recent-block-missing")
			}
			if got.Block.GetID() != want.Block.GetID() {
				verifFail(where + "-wrong-block-at-height")
			}
			if got.Block.Tmstmp != want.Block.Tmstmp {
				verifFail(where + "-wrong-block-at-height")
			}
		} else {
			if err == nil {
				if want == nil {
					verifFail(where + "-never-accepted-block-served")
				}
				verifFail(where + "-stale-block-served")
			}
		}
		if want == nil {
			continue
		}
		byID, err := ix.GetBlock(want.Block.GetID())
		if retained {
			if err != nil {
				verifFail(where + "-recent-block-missing-by-id")
			}
			if byID.Block.Hght != h {
				verifFail(where + "-wrong-block-by-id")
			}
		} else {
			verifReach("evicted")
			if err == nil {
				verifFail(where + "-stale-block-served-by-id")
			}
		}
		for j, tx := range want.Block.Txs {
			found, gotTx, ts, res, err := ix.GetTransaction(tx.GetID())
			if err != nil {
				verifFail(where + "-get-transaction-error")
			}
			if !retained {
				if found {
					verifFail(where + "-stale-transaction-served")
				}
				continue
			}
			verifReach("tx-served")
			if !found {
				verifFail(where + "-recent-transaction-missing")
			}
			if gotTx.GetID() != tx.GetID() {
				verifFail(where + "-wrong-transaction")
			}
			if ts != want.Block.Tmstmp {
				verifFail(where + "-wrong-transaction-timestamp")
			}
			wr := want.ExecutionResults.Results[j]
			if res.Success != wr.Success || res.Fee != wr.Fee || len(res.Outputs) != len(wr.Outputs) {
				verifFail(where + "-wrong-transaction-result")
			}
			for o := range wr.Outputs {
				if !bytes.Equal(res.Outputs[o], wr.Outputs[o]) {
					verifFail(where + "-wrong-transaction-result")
				}
			}
		}
	}
}

func VerifC31History() {
	c31Store = nil
	ctx := context.Background()
	maxOps := verifParam("maxOps", 4, 5)
	maxWindow := verifParam("maxWindow", 3, 4)
	window := uint64(1 + verifChoose("window", maxWindow))
	dir := c31TempDir()
	defer c31RemoveDir(dir)
	ix, err := NewIndexer(dir, c31Parser{}, window)
	if err != nil {
		verifFail("setup-new-indexer")
	}
	var notified []*chain.ExecutedBlock
	maxHeight := uint64(0)
	c31Check(ix, "fresh", notified, window, maxHeight)

	n := 1 + verifChoose("n", maxOps)
	for k := 0; k < n; k++ {
		if verifChoose("op", 2) == 1 {
			// restart: close and reopen on the same directory
			if err := ix.Close(); err != nil {
				verifFail("close-error")
			}
			ix, err = NewIndexer(dir, c31Parser{}, window)
			if err != nil {
				verifFail("restart-open-error")
			}
			verifReach("restarted")
			c31Check(ix, "restart", notified, window, maxHeight)
			continue
		}
		// the next accepted block: first one at height 0, 1 or 5; later ones repeat the last block (delta 0), follow it
		// (delta 1) or leave a gap (delta 2 or 4)
		var h uint64
		if len(notified) == 0 {
			h = []uint64{0, 1, 5}[verifChoose("first", 3)]
		} else {
			d := []uint64{1, 0, 2, 4}[verifChoose("delta", 4)]
			h = notified[len(notified)-1].Block.Hght + d
			if d == 0 {
				verifReach("repeated")
			}
			if d > 1 {
				verifReach("gap")
			}
		}
		var blk *chain.ExecutedBlock
		if len(notified) > 0 && notified[len(notified)-1].Block.Hght == h {
			blk = notified[len(notified)-1]
		} else {
			blk = c31Block(h)
		}
		if err := ix.Notify(ctx, blk); err != nil {
			verifFail("notify-error")
		}
		notified = append(notified, blk)
		if h > maxHeight {
			maxHeight = h
		}
		c31Check(ix, "notify", notified, window, maxHeight)
	}
	if err := ix.Close(); err != nil {
		verifFail("close-error")
	}
	verifReach("end")
}
