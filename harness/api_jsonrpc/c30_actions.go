package jsonrpc

// C30: the read-only action APIs agree with on-chain execution.
//
// The REAL handlers JSONRPCServer.ExecuteActions and JSONRPCServer.SimulateActions are called directly (Go structs in,
// Go structs out; the JSON/HTTP transport is not involved) on a harness implementation of the api.VM interface whose
// state is a map. The same action list is then put into a transaction (chain.NewTransaction) and run with the real
// chain.Transaction.Execute on a real tstate view over the same state, scoped by the transaction's declared keys.
//
// Actions are "script" actions: up to opsPerAction operations (read / write / remove / require-present / bump) over
// a few keys; outputs depend on what was read, so that outputs expose any difference in the state an action sees.

import (
	"context"
	"encoding/binary"
	"errors"
	"net/http"

	"github.com/ava-labs/avalanchego/database"
	"github.com/ava-labs/avalanchego/ids"
	"github.com/ava-labs/avalanchego/snow/validators"
	"github.com/ava-labs/avalanchego/trace"
	"github.com/ava-labs/avalanchego/utils/logging"

	"github.com/ava-labs/hypersdk/abi"
	"github.com/ava-labs/hypersdk/chain"
	"github.com/ava-labs/hypersdk/codec"
	"github.com/ava-labs/hypersdk/fees"
	"github.com/ava-labs/hypersdk/genesis"
	"github.com/ava-labs/hypersdk/state"
	"github.com/ava-labs/hypersdk/state/tstate"

	internalfees "github.com/ava-labs/hypersdk/internal/fees"
)

const (
	c30Read = iota
	c30Write
	c30Remove
	c30Require
	c30Bump
	c30Kinds

	c30MaxOps  = 2
	c30MaxKeys = 3
	c30TypeID  = 1
)

var (
	c30ErrMissing = errors.New("harness: required key is absent")
	c30ErrFormat  = errors.New("harness: malformed script action")
)

func c30Key(i byte) []byte { return []byte{0x20 + i, 0, 1} }

type c30Op struct{ kind, key, val byte }

// c30Action: a script. declared == nil: StateKeys is derived from the script (read -> Read, remove -> Write,
// write/bump -> All); otherwise the given key set is declared instead (used to replay with simulated keys).
type c30Action struct {
	n        int
	ops      [c30MaxOps]c30Op
	declared state.Keys
}

func (*c30Action) GetTypeID() uint8                       { return c30TypeID }
func (*c30Action) ValidRange(chain.Rules) (int64, int64)  { return -1, -1 }
func (*c30Action) ComputeUnits(chain.Rules) uint64        { return 1 }

func (a *c30Action) Bytes() []byte {
	b := []byte{c30TypeID, byte(a.n)}
	for i := 0; i < a.n; i++ {
		b = append(b, a.ops[i].kind, a.ops[i].key, a.ops[i].val)
	}
	return b
}

func c30Parse(b []byte) (chain.Action, error) {
	if len(b) < 2 {
		return nil, c30ErrFormat
	}
	n := int(b[1])
	if n > c30MaxOps {
		return nil, c30ErrFormat
	}
	if len(b) != 2+3*n {
		return nil, c30ErrFormat
	}
	a := &c30Action{n: n}
	for i := 0; i < n; i++ {
		a.ops[i] = c30Op{b[2+3*i], b[3+3*i], b[4+3*i]}
		if a.ops[i].kind >= c30Kinds {
			return nil, c30ErrFormat
		}
		if a.ops[i].key >= c30MaxKeys {
			return nil, c30ErrFormat
		}
	}
	return a, nil
}

func (a *c30Action) StateKeys(codec.Address, ids.ID) state.Keys {
	if a.declared != nil {
		return a.declared
	}
	ks := state.Keys{}
	for i := 0; i < a.n; i++ {
		k := string(c30Key(a.ops[i].key))
		switch a.ops[i].kind {
		case c30Read, c30Require:
			ks.Add(k, state.Read)
		case c30Remove:
			ks.Add(k, state.Write)
		default:
			ks.Add(k, state.All)
		}
	}
	return ks
}

func (a *c30Action) Execute(ctx context.Context, _ chain.Rules, mu state.Mutable, _ int64, _ codec.Address, _ ids.ID) ([]byte, error) {
	out := []byte{0xee}
	for i := 0; i < a.n; i++ {
		op := a.ops[i]
		k := c30Key(op.key)
		switch op.kind {
		case c30Read:
			v, err := mu.GetValue(ctx, k)
			if errors.Is(err, database.ErrNotFound) {
				out = append(out, 0)
			} else if err != nil {
				return nil, err
			} else if len(v) == 0 {
				out = append(out, 2) // present with the empty value
			} else {
				out = append(out, 1, v[0])
			}
		case c30Write:
			if err := mu.Insert(ctx, k, []byte{op.val}); err != nil {
				return nil, err
			}
		case c30Remove:
			if err := mu.Remove(ctx, k); err != nil {
				return nil, err
			}
		case c30Require:
			if _, err := mu.GetValue(ctx, k); err != nil {
				if errors.Is(err, database.ErrNotFound) {
					return nil, c30ErrMissing
				}
				return nil, err
			}
		case c30Bump:
			nv := op.val
			v, err := mu.GetValue(ctx, k)
			if err == nil {
				if len(v) > 0 {
					nv = v[0] + 1
				} else {
					nv = 0x77
				}
			} else if !errors.Is(err, database.ErrNotFound) {
				return nil, err
			}
			if err := mu.Insert(ctx, k, []byte{nv}); err != nil {
				return nil, err
			}
			out = append(out, nv)
		}
	}
	return out, nil
}

// ---- auth / balance handler (the sponsor balance lives under its own prefix and is never touched by scripts)

type c30Auth struct{ addr codec.Address }

func (c30Auth) GetTypeID() uint8                      { return 0 }
func (c30Auth) ValidRange(chain.Rules) (int64, int64) { return -1, -1 }
func (c30Auth) Bytes() []byte                         { return []byte{0, 1} }
func (c30Auth) ComputeUnits(chain.Rules) uint64       { return 1 }
func (c30Auth) Verify(context.Context, []byte) error  { return nil }
func (a c30Auth) Actor() codec.Address                { return a.addr }
func (a c30Auth) Sponsor() codec.Address              { return a.addr }

func c30BalKey(a codec.Address) []byte { return append([]byte{8}, append(a[:], 0, 1)...) }

type c30BH struct{}

func (c30BH) SponsorStateKeys(a codec.Address) state.Keys {
	return state.Keys{string(c30BalKey(a)): state.Read | state.Write}
}
func (c30BH) GetBalance(ctx context.Context, a codec.Address, im state.Immutable) (uint64, error) {
	v, err := im.GetValue(ctx, c30BalKey(a))
	if errors.Is(err, database.ErrNotFound) {
		return 0, nil
	}
	if err != nil {
		return 0, err
	}
	return binary.BigEndian.Uint64(v), nil
}
func (h c30BH) CanDeduct(ctx context.Context, a codec.Address, im state.Immutable, amount uint64) error {
	b, err := h.GetBalance(ctx, a, im)
	if err != nil {
		return err
	}
	if b < amount {
		return c30ErrMissing
	}
	return nil
}
func (h c30BH) Deduct(ctx context.Context, a codec.Address, mu state.Mutable, amount uint64) error {
	b, err := h.GetBalance(ctx, a, mu)
	if err != nil {
		return err
	}
	if b < amount {
		return c30ErrMissing
	}
	return mu.Insert(ctx, c30BalKey(a), binary.BigEndian.AppendUint64(nil, b-amount))
}
func (h c30BH) AddBalance(ctx context.Context, a codec.Address, mu state.Mutable, amount uint64) error {
	b, _ := h.GetBalance(ctx, a, mu)
	return mu.Insert(ctx, c30BalKey(a), binary.BigEndian.AppendUint64(nil, b+amount))
}

// ---- the VM behind the API server

type c30VM struct {
	st     map[string][]byte
	parser chain.Parser
	rules  chain.Rules
}

func (*c30VM) GetDataDir() string               { return "" }
func (*c30VM) GetGenesisBytes() []byte          { return nil }
func (*c30VM) Genesis() genesis.Genesis         { return nil }
func (*c30VM) ChainID() ids.ID                  { return ids.ID{7} }
func (*c30VM) NetworkID() uint32                { return 1 }
func (*c30VM) SubnetID() ids.ID                 { return ids.ID{} }
func (*c30VM) Tracer() trace.Tracer             { return trace.Noop }
func (*c30VM) Logger() logging.Logger           { return logging.NoLog{} }
func (v *c30VM) GetParser() chain.Parser        { return v.parser }
func (*c30VM) GetABI() abi.ABI                  { return abi.ABI{} }
func (v *c30VM) GetRuleFactory() chain.RuleFactory {
	return &genesis.ImmutableRuleFactory{Rules: v.rules}
}
func (*c30VM) Submit(context.Context, []*chain.Transaction) []error { return nil }
func (*c30VM) LastAcceptedBlock(context.Context) (*chain.StatelessBlock, error) {
	return nil, c30ErrFormat
}
func (*c30VM) UnitPrices(context.Context) (fees.Dimensions, error) { return fees.Dimensions{}, nil }
func (*c30VM) CurrentValidators(context.Context) (map[ids.NodeID]*validators.GetValidatorOutput, map[string]struct{}) {
	return nil, nil
}
func (v *c30VM) ReadState(_ context.Context, keys [][]byte) ([][]byte, []error) {
	vals, errs := make([][]byte, len(keys)), make([]error, len(keys))
	for i, k := range keys {
		if x, ok := v.st[string(k)]; ok {
			vals[i] = x
		} else {
			errs[i] = database.ErrNotFound
		}
	}
	return vals, errs
}
func (v *c30VM) ImmutableState(context.Context) (state.Immutable, error) {
	return state.ImmutableStorage(v.st), nil
}
func (*c30VM) BalanceHandler() chain.BalanceHandler { return c30BH{} }

// c30OnChain runs the actions inside a transaction on a fresh view over st and returns the result.
func c30OnChain(actions []chain.Action, st map[string][]byte, rules chain.Rules, actor codec.Address, label string) *chain.Result {
	tx, err := chain.NewTransaction(chain.Base{Timestamp: 1000, ChainID: ids.ID{7}, MaxFee: 1 << 40}, actions, c30Auth{actor})
	if err != nil {
		verifFail(label + "-new-transaction")
	}
	bh := c30BH{}
	keys, err := tx.StateKeys(bh)
	if err != nil {
		verifFail(label + "-state-keys")
	}
	fm := internalfees.NewManager(nil)
	for d := fees.Dimension(0); d < fees.FeeDimensions; d++ {
		fm.SetUnitPrice(d, 1)
	}
	view := tstate.New(0).NewView(keys, state.ImmutableStorage(st), len(keys))
	res, err := tx.Execute(context.Background(), fm, bh, rules, view, 0)
	if err != nil {
		verifFail(label + "-execute-error")
	}
	return res
}

func c30SameOutputs(a, b [][]byte, label string) {
	if len(a) != len(b) {
		verifFail(label + "-count")
	}
	for i := range a {
		if len(a[i]) != len(b[i]) {
			verifFail(label + "-length")
		}
		var acc byte
		for j := range a[i] {
			acc |= a[i][j] ^ b[i][j]
		}
		if acc != 0 {
			verifFail(label + "-bytes")
		}
	}
}

// VerifC30Actions
func VerifC30Actions() {
	nkeys := verifParam("keys", 2, 3)
	maxActions := verifParam("maxActions", 2, 3)
	opsSingle := verifParam("opsPerActionInSingleActionLists", 1, 2)
	actor := codec.Address{1, 2, 3}
	// state: every script key absent, present with any one-byte value, or present with the empty value; the sponsor balance is ample
	st := map[string][]byte{string(c30BalKey(actor)): binary.BigEndian.AppendUint64(nil, 1<<50)}
	for i := 0; i < nkeys; i++ {
		switch verifChoose("present", 3) {
		case 1:
			st[string(c30Key(byte(i)))] = []byte{verifU8("value")}
		case 2:
			st[string(c30Key(byte(i)))] = []byte{} // present with the empty value: a legal state, distinct from absence
		}
	}
	// action list
	n := 1 + verifChoose("nactions", maxActions)
	actions := make([]chain.Action, n)
	raw := make([][]byte, n)
	rawC := make([]codec.Bytes, n)
	for i := range actions {
		opsPerAction := 1
		if n == 1 {
			opsPerAction = opsSingle
		}
		a := &c30Action{n: 1 + verifChoose("nops", opsPerAction)}
		for j := 0; j < a.n; j++ {
			a.ops[j] = c30Op{byte(verifChoose("kind", c30Kinds)), byte(verifChoose("key", nkeys)), verifU8("val")}
		}
		actions[i] = a
		raw[i] = a.Bytes()
		rawC[i] = a.Bytes()
	}
	ar := codec.NewTypeParser[chain.Action]()
	if err := ar.Register(&c30Action{}, c30Parse); err != nil {
		verifFail("register")
	}
	rules := genesis.NewDefaultRules()
	rules.ChainID = ids.ID{7}
	vm := &c30VM{st: st, parser: chain.NewTxTypeParser(ar, codec.NewTypeParser[chain.Auth]()), rules: rules}
	srv := NewJSONRPCServer(vm)

	// on-chain reference
	ref := c30OnChain(actions, st, rules, actor, "onchain")

	// ExecuteActions
	var ex ExecuteActionReply
	if err := srv.ExecuteActions(&http.Request{}, &ExecuteActionArgs{Actor: actor, Actions: raw}, &ex); err != nil {
		verifFail("execute-actions-returned-error")
	}
	if (ex.Error == "") != ref.Success {
		if ref.Success {
			verifFail("execute-actions-fails-but-onchain-succeeds")
		}
		verifFail("execute-actions-succeeds-but-onchain-fails")
	}
	c30SameOutputs(ex.Outputs, ref.Outputs, "execute-actions-outputs-differ-from-onchain")

	// SimulateActions
	var sim SimulateActionsReply
	err := srv.SimulateActions(&http.Request{}, &SimulatActionsArgs{Actor: actor, Actions: rawC}, &sim)
	if (err == nil) != ref.Success {
		if ref.Success {
			verifFail("simulate-actions-fails-but-onchain-succeeds")
		}
		verifFail("simulate-actions-succeeds-but-onchain-fails")
	}
	if err != nil {
		verifReach("failing-list")
		verifReach("end")
		return
	}
	verifReach("succeeding-list")
	if len(sim.ActionResults) != n {
		verifFail("simulate-actions-result-count")
	}
	simOut := make([][]byte, n)
	declared := make([]chain.Action, n)
	for i := range sim.ActionResults {
		simOut[i] = sim.ActionResults[i].Output
		c := *actions[i].(*c30Action)
		c.declared = sim.ActionResults[i].StateKeys
		if c.declared == nil {
			c.declared = state.Keys{}
		}
		declared[i] = &c
	}
	c30SameOutputs(simOut, ref.Outputs, "simulate-actions-outputs-differ-from-onchain")
	// the simulated key sets are sufficient: declaring exactly them, the transaction behaves the same
	again := c30OnChain(declared, st, rules, actor, "simulated-keys")
	if !again.Success {
		verifFail("simulated-keys-insufficient")
	}
	c30SameOutputs(again.Outputs, ref.Outputs, "simulated-keys-change-outputs")
	verifReach("end")
}
