package actions

// C06: MorpheusVM conserves the token supply except for the burned fee.
//
// A block of 1..maxTxs transactions, each of 1..N real Transfer actions among three accounts (the actor/sponsor A0
// included), is built with the exported chain.NewTransaction and run the way chain.Processor runs it: per transaction a
// real tstate view over the shared TState, scoped by the transaction's own declared keys; the real
// chain.Transaction.PreExecute + Execute (fee deduction through the real storage.BalanceHandler, the real
// Transfer.Execute / storage.SubBalance / storage.AddBalance with delete-at-zero, rollback of failing actions); Commit.
// Oracle: sum of all balances after (parent state overlaid with the block's change set) + sum of Result.Fee = sum
// before, whether actions succeed or fail (exact sums in math/big, INT encoding).

import (
	"context"
	"encoding/binary"
	"math/big"

	"github.com/ava-labs/avalanchego/ids"

	"github.com/ava-labs/hypersdk/chain"
	"github.com/ava-labs/hypersdk/codec"
	"github.com/ava-labs/hypersdk/examples/morpheusvm/storage"
	"github.com/ava-labs/hypersdk/fees"
	"github.com/ava-labs/hypersdk/genesis"
	"github.com/ava-labs/hypersdk/state"
	"github.com/ava-labs/hypersdk/state/tstate"

	internalfees "github.com/ava-labs/hypersdk/internal/fees"
	mconsts "github.com/ava-labs/hypersdk/examples/morpheusvm/consts"
)

// c06Auth: a fixed actor that is also the sponsor.
type c06Auth struct{ addr codec.Address }

func (c06Auth) GetTypeID() uint8                          { return 0 }
func (c06Auth) ValidRange(chain.Rules) (int64, int64)     { return -1, -1 }
func (c06Auth) Bytes() []byte                             { return []byte{0, 1} }
func (c06Auth) ComputeUnits(chain.Rules) uint64           { return 1 }
func (c06Auth) Verify(context.Context, []byte) error      { return nil }
func (a c06Auth) Actor() codec.Address                    { return a.addr }
func (a c06Auth) Sponsor() codec.Address                  { return a.addr }

func c06Addr(i int) codec.Address {
	var a codec.Address
	a[1] = byte(0x11 * (i + 1))
	a[codec.AddressLen-1] = byte(i + 1)
	return a
}

// c06TransferBytes: engine-side replacement of (*Transfer).Bytes (avalanchego reflection codec): the same layout
// typeID ‖ To ‖ Value (big endian) ‖ uint32 memo length ‖ memo, so sizes and fees agree with the native run.
func c06TransferBytes(t *Transfer) []byte {
	b := make([]byte, 0, 1+codec.AddressLen+8+4+len(t.Memo))
	b = append(b, mconsts.TransferID)
	b = append(b, t.To[:]...)
	b = binary.BigEndian.AppendUint64(b, t.Value)
	b = binary.BigEndian.AppendUint32(b, uint32(len(t.Memo)))
	return append(b, t.Memo...)
}

// c06ResultBytes: engine-side replacement of (*TransferResult).Bytes (same layout; outputs are not part of C06).
func c06ResultBytes(t *TransferResult) []byte {
	b := []byte{mconsts.TransferID}
	b = binary.BigEndian.AppendUint64(b, t.SenderBalance)
	return binary.BigEndian.AppendUint64(b, t.ReceiverBalance)
}

const c06Accounts = 3

// VerifC06Supply
func VerifC06Supply() {
	ctx := context.Background()
	maxTxs := verifParam("maxTxs", 2, 2)
	maxActions := verifParam("maxActionsSingleTx", 2, 3)
	maxActionsMulti := verifParam("maxActionsPerTxInMultiTxBlocks", 1, 1)
	var addrs [c06Accounts]codec.Address
	for i := range addrs {
		addrs[i] = c06Addr(i)
	}
	// genesis-like parent state: the actor exists; every other account is absent or present with any balance (0 included)
	parent := map[string][]byte{}
	var before [c06Accounts]uint64
	for i := range addrs {
		if i == 0 || verifChoose("present", 2) == 1 {
			before[i] = verifU64("balance")
			parent[string(storage.BalanceKey(addrs[i]))] = binary.BigEndian.AppendUint64(nil, before[i])
		}
	}
	rules := genesis.NewDefaultRules()
	rules.ChainID = ids.ID{7}
	const now = int64(1_700_000_000_000)
	// symbolic fee: the bandwidth unit price is arbitrary, the others are the default minimum
	fm := internalfees.NewManager(nil)
	for d := fees.Dimension(0); d < fees.FeeDimensions; d++ {
		fm.SetUnitPrice(d, 100)
	}
	fm.SetUnitPrice(fees.Bandwidth, verifU64("bandwidthPrice"))
	bh := &storage.BalanceHandler{}
	store := state.ImmutableStorage(parent)
	ts := tstate.New(0)
	fees128 := new(big.Int)

	// the block: transactions run one after the other the way chain.Processor runs them (view over the shared
	// TState scoped by the transaction's declared keys; PreExecute and Execute on the view; Commit)
	nTx := 1 + verifChoose("ntxs", maxTxs)
	for t := 0; t < nTx; t++ {
		limit := maxActions
		if nTx > 1 {
			limit = maxActionsMulti
		}
		n := 1 + verifChoose("nactions", limit)
		acts := make([]chain.Action, n)
		for i := range acts {
			acts[i] = &Transfer{To: addrs[verifChoose("to", c06Accounts)], Value: verifU64("value")}
		}
		actor := addrs[0]
		if t == 1 {
			actor = addrs[verifChoose("secondTxActor", 2)] // the second transaction is sent by the same or by another account
		}
		tx, err := chain.NewTransaction(chain.Base{Timestamp: now + 1000*int64(t+1), ChainID: rules.ChainID, MaxFee: verifU64("maxfee")}, acts, c06Auth{actor})
		if err != nil {
			verifFail("new-transaction")
		}
		keys, err := tx.StateKeys(bh)
		if err != nil {
			verifFail("state-keys")
		}
		view := ts.NewView(keys, store, len(keys))
		if err := tx.PreExecute(ctx, fm, bh, rules, view, now); err != nil {
			// cannot pay the fee (or the fee overflows): such a block is invalid, nothing of this transaction is applied
			verifReach("pre-execute-rejected")
			verifReach("end")
			return
		}
		res, err := tx.Execute(ctx, fm, bh, rules, view, now)
		if err != nil {
			verifFail("execute-error-after-successful-pre-execute")
		}
		view.Commit()
		fees128.Add(fees128, new(big.Int).SetUint64(res.Fee))
		if res.Success {
			verifReach("success")
		} else {
			verifReach("failure")
		}
		if t == 1 {
			verifReach("second-transaction")
		}
		verifObserve("txsize", uint64(tx.Size()))
	}
	changed := ts.ChangedKeys()
	// exact sums (math/big): before = after + fees
	sumBefore, sumAfter := new(big.Int), new(big.Int)
	for i := range addrs {
		sumBefore.Add(sumBefore, new(big.Int).SetUint64(before[i]))
		k := string(storage.BalanceKey(addrs[i]))
		after := before[i]
		if v, ok := changed[k]; ok {
			after = 0
			if v.HasValue() {
				if len(v.Value()) != 8 {
					verifFail("balance-value-length")
				}
				after = binary.BigEndian.Uint64(v.Value())
			}
		}
		sumAfter.Add(sumAfter, new(big.Int).SetUint64(after))
	}
	sumAfter.Add(sumAfter, fees128)
	if sumAfter.Cmp(sumBefore) != 0 {
		if sumAfter.Cmp(sumBefore) > 0 {
			verifFail("tokens-created")
		}
		verifFail("tokens-destroyed")
	}
	if len(changed) > c06Accounts {
		verifFail("keys-outside-the-accounts-changed")
	}
	verifReach("end")
}
