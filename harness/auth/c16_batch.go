package auth

import (
	"context"
	stded "crypto/ed25519"
	"errors"

	"github.com/ava-labs/avalanchego/utils/logging"

	"github.com/ava-labs/hypersdk/chain"
	"github.com/ava-labs/hypersdk/codec"
	"github.com/ava-labs/hypersdk/crypto/ed25519"
	"github.com/ava-labs/hypersdk/internal/workers"
)

// ---- engine-side models of the curve arithmetic (the Redirects of the spec map the real functions to these; the
// native replay runs the real ed25519 code). A model signature is valid iff its first byte is 1. ----

func c16NewKeyModel(seed []byte) stded.PrivateKey { return make(stded.PrivateKey, stded.PrivateKeySize) }

func c16SignModel(msg []byte, pk ed25519.PrivateKey) ed25519.Signature {
	var s ed25519.Signature
	s[0] = 1
	return s
}

func c16VerifyModel(msg []byte, p ed25519.PublicKey, s ed25519.Signature) bool { return s[0] == 1 }

var c16batchBad map[*ed25519.Batch]bool // engine only: batch -> contains an invalid signature

func c16NewBatchModel(size int) *ed25519.Batch { return &ed25519.Batch{} }

func c16BatchAddModel(b *ed25519.Batch, msg []byte, p ed25519.PublicKey, s ed25519.Signature) {
	if c16batchBad == nil {
		c16batchBad = map[*ed25519.Batch]bool{}
	}
	if s[0] != 1 {
		c16batchBad[b] = true
	}
}

func c16BatchVerifyModel(b *ed25519.Batch) bool { return !c16batchBad[b] }

// ---- an auth scheme without batch verifier (stands for secp256r1/bls: verified one by one) ----

var errC16 = errors.New("harness: invalid signature (unbatched scheme)")

type c16Other struct{ valid bool }

func (c16Other) GetTypeID() uint8                            { return 99 }
func (c16Other) ComputeUnits(chain.Rules) uint64             { return 1 }
func (c16Other) ValidRange(chain.Rules) (int64, int64)       { return -1, -1 }
func (c16Other) Bytes() []byte                               { return []byte{99} }
func (c16Other) Actor() codec.Address                        { return codec.Address{99} }
func (c16Other) Sponsor() codec.Address                      { return codec.Address{99} }
func (o c16Other) Verify(context.Context, []byte) error {
	if !o.valid {
		return errC16
	}
	return nil
}

type c16Engines struct{}

func (c16Engines) GetAuthBatchVerifier(authTypeID uint8, cores int, count int) (chain.AuthBatchVerifier, bool) {
	if authTypeID == ED25519ID {
		return (&ED25519AuthEngine{}).GetBatchVerifier(cores, count), true
	}
	return nil, false
}

const c16MaxAuths = 6

// VerifC16: the signature job of block verification as Processor.verifySignatures/waitSignatures builds it
// (workers pool job + chain.AuthBatch + per-type batch worker goroutine + ED25519Batch) on n transactions whose auth is
// ed25519 (batched) or an unbatched scheme, each valid or invalid: the job fails iff some signature is invalid.
func VerifC16() {
	n := 1 + verifChoose("txs", verifParam("maxTxs", 4, c16MaxAuths))
	cores := 1 + verifChoose("cores", 2)
	c16Run(n, cores, false)
}

// VerifC16Tail: counts that do not split into full ed25519 batches (batch size max(count/cores, 4) with 2 cores: 5, and
// thorough 6, signatures — the trailing partial batch is handed out only by Done), all transactions ed25519, parallel pool.
func VerifC16Tail() {
	n := 5 + verifChoose("extraTxs", verifParam("tailExtraTxs", 1, 2))
	c16Run(n, 2, true)
}

func c16Run(n, cores int, tail bool) {
	c16batchBad = nil
	priv := ed25519.PrivateKey(stded.NewKeyFromSeed(make([]byte, 32)))
	factory := NewED25519Factory(priv)
	// at most `maxInvalid` invalid signatures at arbitrary positions
	bad1 := verifChoose("invalidAt", n+1) - 1 // -1: none
	bad2 := -1
	if verifParam("maxInvalid", 1, 2) == 2 {
		if bad1 >= 0 {
			bad2 = bad1 + verifChoose("secondInvalidAfter", n-bad1) // == bad1: only one
		}
	}
	var auths [c16MaxAuths]chain.Auth
	var msgs [c16MaxAuths][]byte
	counts := map[uint8]int{}
	anyBad := false
	for i := 0; i < n; i++ {
		msgs[i] = []byte{byte(i), 7}
		valid := true
		if i == bad1 {
			valid = false
		}
		if i == bad2 {
			valid = false
		}
		if !valid {
			anyBad = true
		}
		if tail || verifChoose("scheme", 2) == 0 {
			a, err := factory.Sign(msgs[i])
			if err != nil {
				verifFail("sign-error")
			}
			ea := a.(*ED25519)
			if !valid {
				ea.Signature[0] ^= 0xff
			}
			auths[i] = ea
			counts[ED25519ID]++
		} else {
			auths[i] = c16Other{valid: valid}
			counts[99]++
		}
	}
	var pool workers.Workers
	if !tail && verifChoose("serialWorkers", 2) == 1 {
		pool = workers.NewSerial()
	} else {
		pool = workers.NewParallel(cores, 2)
	}
	job, err := pool.NewJob(n)
	if err != nil {
		verifFail("newjob-error")
	}
	// Processor.verifySignatures
	bv := chain.NewAuthBatch(logging.NoLog{}, c16Engines{}, job, counts)
	for i := 0; i < n; i++ {
		bv.Add(msgs[i], auths[i])
	}
	go bv.Done(nil)
	// Processor.waitSignatures
	res := job.Wait()
	if res == nil {
		if anyBad {
			verifFail("block-with-invalid-signature-accepted")
		}
		verifReach("accepted")
	} else {
		if !anyBad {
			verifFail("block-with-valid-signatures-rejected")
		}
		verifReach("rejected")
	}
	pool.Stop()
	verifReach("end")
}
