package auth

// C15 (auth part): auth.UnmarshalED25519 is canonical, alone and as the auth of a transaction parsed by the real
// chain.UnmarshalTx through the real codec.TypeParser registries.

import (
	"context"
	"errors"

	"github.com/ava-labs/avalanchego/ids"

	"github.com/ava-labs/hypersdk/chain"
	"github.com/ava-labs/hypersdk/codec"
	"github.com/ava-labs/hypersdk/state"
	"github.com/ava-labs/hypersdk/utils"
)

func c15aSame(a, b []byte, label string) {
	if len(a) != len(b) {
		verifFail(label + "-length")
	}
	var acc byte
	for i := range a {
		acc |= a[i] ^ b[i]
	}
	if acc != 0 {
		verifFail(label + "-bytes")
	}
}

func c15aCopy(b []byte) []byte { return append([]byte{}, b...) }

// VerifC15ED25519Bytes: an arbitrary buffer of a length around ED25519Size.
func VerifC15ED25519Bytes() {
	lens := []int{0, 1, 2, ED25519Size - 1, ED25519Size, ED25519Size + 1}
	l := lens[verifChoose("len", len(lens))]
	buf := verifBytes("b", l)
	in := c15aCopy(buf)
	a, err := UnmarshalED25519(buf)
	if err != nil {
		verifReach("rejected")
		verifReach("end")
		return
	}
	verifReach("accepted")
	if a.GetTypeID() != in[0] {
		verifFail("ed25519-type-id")
	}
	c15aSame(a.Bytes(), in, "ed25519-reencode")
	back, err := UnmarshalED25519(a.Bytes())
	if err != nil {
		verifFail("ed25519-roundtrip-rejected")
	}
	x, y := a.(*ED25519), back.(*ED25519)
	if x.Signer != y.Signer {
		verifFail("ed25519-roundtrip-signer")
	}
	if x.Signature != y.Signature {
		verifFail("ed25519-roundtrip-signature")
	}
	verifReach("end")
}

var c15aErrSize = errors.New("harness: action must be typeID plus one payload byte")

type c15aAction struct{ p byte }

func (c15aAction) GetTypeID() uint8                           { return 0 }
func (a c15aAction) Bytes() []byte                            { return []byte{0, a.p} }
func (c15aAction) ValidRange(chain.Rules) (int64, int64)      { return -1, -1 }
func (c15aAction) ComputeUnits(chain.Rules) uint64            { return 1 }
func (c15aAction) StateKeys(codec.Address, ids.ID) state.Keys { return state.Keys{} }
func (c15aAction) Execute(context.Context, chain.Rules, state.Mutable, int64, codec.Address, ids.ID) ([]byte, error) {
	return nil, nil
}

func c15aParser() chain.Parser {
	ar := codec.NewTypeParser[chain.Action]()
	if err := ar.Register(c15aAction{}, func(b []byte) (chain.Action, error) {
		if len(b) != 2 {
			return nil, c15aErrSize
		}
		return c15aAction{b[1]}, nil
	}); err != nil {
		verifFail("register-action")
	}
	au := codec.NewTypeParser[chain.Auth]()
	if err := au.Register(&ED25519{}, UnmarshalED25519); err != nil {
		verifFail("register-auth")
	}
	return chain.NewTxTypeParser(ar, au)
}

// VerifC15ED25519Tx: a transaction (one action, ED25519 auth) whose encoding
// is mutated (cut <= 1, insert <= 1 arbitrary byte) at any position of its framing (the first 8 bytes: action field,
// auth tag, auth length, auth type ID, or the last 2 bytes / the end): whatever UnmarshalTx accepts re-encodes to the
// input, has ID = hash(input) and signs exactly the bytes before the auth field.
func VerifC15ED25519Tx() {
	a := &ED25519{}
	// fixed key/signature bytes (they are opaque data to the framing; the mutation window is what is arbitrary),
	// except the first and last byte of the auth payload
	for i := range a.Signer {
		a.Signer[i] = byte(0x40 + i)
	}
	for i := range a.Signature {
		a.Signature[i] = byte(0x80 + i)
	}
	a.Signer[0], a.Signature[len(a.Signature)-1] = verifU8("signer0"), verifU8("sigLast")
	tx, err := chain.NewTransaction(chain.Base{}, []chain.Action{c15aAction{verifU8("payload")}}, a)
	if err != nil {
		verifFail("new-transaction")
	}
	enc := tx.Bytes()
	if len(enc) != 4+2+ED25519Size {
		verifFail("template-size")
	}
	p := verifChoose("mutPos", 8+3)
	if p >= 8 {
		p = len(enc) - 2 + (p - 8)
	}
	d := verifChoose("mutCut", 2)
	w := verifChoose("mutIns", 2)
	if p+d > len(enc) {
		verifAssume(false)
	}
	buf := c15aCopy(enc[:p])
	buf = append(buf, verifBytes("mut", w)...)
	buf = append(buf, enc[p+d:]...)
	in := c15aCopy(buf)
	got, err := chain.UnmarshalTx(buf, c15aParser())
	if err != nil {
		verifReach("rejected")
		verifReach("end")
		return
	}
	verifReach("accepted")
	c15aSame(got.Bytes(), in, "ed25519-tx-cached-bytes")
	id, want := got.GetID(), utils.ToID(in)
	var acc byte
	for i := range id {
		acc |= id[i] ^ want[i]
	}
	if acc != 0 {
		verifFail("ed25519-tx-id-not-hash-of-bytes")
	}
	re, err := chain.NewTransaction(got.Base, got.Actions, got.Auth)
	if err != nil {
		verifFail("ed25519-tx-reconstruct")
	}
	c15aSame(re.Bytes(), in, "ed25519-tx-reencode")
	unsigned := got.UnsignedBytes()
	c15aSame(unsigned, re.UnsignedBytes(), "ed25519-tx-unsigned-bytes")
	authOnly := &chain.SerializeTx{Auth: got.Auth.Bytes()}
	whole := append(c15aCopy(unsigned), authOnly.MarshalCanoto()...)
	c15aSame(whole, in, "ed25519-tx-not-unsigned-plus-auth")
	verifReach("end")
}
