package validitywindow

import (
	"context"
	"errors"
	"sync"

	"github.com/ava-labs/avalanchego/ids"
	"github.com/ava-labs/avalanchego/trace"
	"github.com/ava-labs/avalanchego/utils/logging"

	"github.com/ava-labs/hypersdk/utils"
)

type c22Tx struct {
	id     ids.ID
	expiry int64
}

func (t c22Tx) GetID() ids.ID    { return t.id }
func (t c22Tx) GetExpiry() int64 { return t.expiry }

type c22Blk struct {
	id, parent ids.ID
	ts         int64
	h          uint64
	bytes      []byte
	txs        []c22Tx
	forged     bool
}

func (b *c22Blk) GetID() ids.ID          { return b.id }
func (b *c22Blk) GetParent() ids.ID      { return b.parent }
func (b *c22Blk) GetTimestamp() int64    { return b.ts }
func (b *c22Blk) GetHeight() uint64      { return b.h }
func (b *c22Blk) GetBytes() []byte       { return b.bytes }
func (b *c22Blk) GetContainers() []c22Tx { return b.txs }
func (b *c22Blk) Contains(id ids.ID) bool {
	for _, t := range b.txs {
		if t.id == id {
			return true
		}
	}
	return false
}

func c22mk(parent *c22Blk, ts int64, salt byte, forged bool, life int64) *c22Blk {
	b := &c22Blk{ts: ts, forged: forged}
	if parent != nil {
		b.parent = parent.id
		b.h = parent.h + 1
	}
	b.bytes = append(append([]byte{}, b.parent[:]...), byte(b.h), salt, byte(ts), byte(ts>>8))
	b.id = utils.ToID(b.bytes)
	b.txs = []c22Tx{{id: utils.ToID(append([]byte{0xee}, b.bytes...)), expiry: ts + life}}
	return b
}

const c22Len = 7 // heights 0..6; the sync target is height 5 (height 6 may be accepted while backfilling)

var errC22 = errors.New("harness: peer error")

type c22World struct {
	mu     sync.Mutex
	chain  [c22Len]*c22Blk // the real chain
	forged [c22Len]*c22Blk // forged[h]: a block at height h that is NOT the ancestor (other ID, claims the same parent)
	local  int             // heights >= local are in the local chain index
	// peer behaviour
	badLeft  int
	requests int
	// what the syncer did
	saved []*c22Blk
}

func (w *c22World) GetExecutionBlock(_ context.Context, id ids.ID) (ExecutionBlock[c22Tx], error) {
	for h := w.local; h < c22Len; h++ {
		if w.chain[h].id == id {
			return w.chain[h], nil
		}
	}
	return nil, errors.New("harness: block not available locally")
}

func (w *c22World) GetBlockByHeight(_ context.Context, h uint64) (*c22Blk, error) {
	if h >= c22Len {
		return nil, errors.New("harness: no such height")
	}
	return w.chain[h], nil
}

func (w *c22World) ParseBlock(_ context.Context, raw []byte) (*c22Blk, error) {
	id := utils.ToID(raw)
	for h := 0; h < c22Len; h++ {
		if w.chain[h].id == id {
			return w.chain[h], nil
		}
		if w.forged[h] != nil && w.forged[h].id == id {
			return w.forged[h], nil
		}
	}
	return nil, errors.New("harness: unparsable block")
}

func (w *c22World) SaveHistorical(b *c22Blk) error {
	w.mu.Lock()
	defer w.mu.Unlock()
	w.saved = append(w.saved, b)
	return nil
}

func (*c22World) Sample(context.Context, int) []ids.NodeID { return []ids.NodeID{{1}} }

// FetchBlocksFromPeer: the peer answers honestly (the real BlockFetcherHandler code over the real chain, at most 2
// blocks per response) or, while its budget of misbehaviour lasts, with an error, unparsable bytes, a forged block, real
// ancestors out of order, or a real block followed by a forged one.
func (w *c22World) FetchBlocksFromPeer(ctx context.Context, _ ids.NodeID, req *BlockFetchRequest) (*BlockFetchResponse, error) {
	w.mu.Lock()
	w.requests++
	n := w.requests
	bad := 0
	if w.badLeft > 0 {
		bad = verifChoose("peerAnswer", 6)
		if bad > 0 {
			w.badLeft--
		}
	}
	w.mu.Unlock()
	if n > 40 {
		verifFail("backfill-keeps-requesting")
	}
	h := req.BlockHeight
	real := func(h uint64) []byte {
		if h < c22Len {
			return w.chain[h].bytes
		}
		return []byte{1, 2, 3}
	}
	switch bad {
	case 1:
		return nil, errC22
	case 2:
		return &BlockFetchResponse{Blocks: [][]byte{{0xde, 0xad}, real(h)}}, nil
	case 3:
		if h < c22Len && w.forged[h] != nil {
			return &BlockFetchResponse{Blocks: [][]byte{w.forged[h].bytes}}, nil
		}
		return nil, errC22
	case 4:
		if h >= 1 {
			return &BlockFetchResponse{Blocks: [][]byte{real(h - 1), real(h)}}, nil // out of order / skipping one
		}
		return nil, errC22
	case 5:
		if h >= 1 && h-1 < c22Len && w.forged[h-1] != nil {
			return &BlockFetchResponse{Blocks: [][]byte{real(h), w.forged[h-1].bytes}}, nil
		}
		return nil, errC22
	}
	handler := NewBlockFetcherHandler[*c22Blk](w)
	blocks, err := handler.fetchBlocks(ctx, req)
	if err != nil {
		return nil, err
	}
	if len(blocks) > 2 {
		blocks = blocks[:2]
	}
	return &BlockFetchResponse{Blocks: blocks}, nil
}

// VerifC22: a state-synced node holds only the newest `local` blocks of a 6-block chain; Syncer.Start(target) backfills
// the replay-protection window from a peer that misbehaves up to `badAnswers` times; optionally the next block is
// accepted (UpdateSyncTarget) while the backfill runs.
func VerifC22() { c22Run(false) }

// VerifC22Cancel: the context handed to Syncer.Start is cancelled while the backfill runs (honest peer, no Close, no
// new target). The backfill may then never complete — but if the syncer reports completion (its done signal, which is
// what Wait returns nil on), the tracked set must still be the complete ancestry back past the validity window.
func VerifC22Cancel() { c22Run(true) }

func c22Run(cancelMode bool) {
	ctx := context.Background()
	w := &c22World{}
	// genesis is old (as in hypersdk, whose genesis header timestamp lies years before any real block)
	tss := [c22Len]int64{0, 1000, 1010, 1020, 1030, 1040, 1050}
	window := []int64{15, 25, 35, 45}[verifChoose("validityWindow", verifParam("windows", 3, 4))]
	// transactions live for the whole validity window (the longest expiry valid at inclusion), so that an ancestor
	// transaction inside the window has not expired at the target and must be tracked
	var prev *c22Blk
	for h := 0; h < c22Len; h++ {
		w.chain[h] = c22mk(prev, tss[h], 1, false, window)
		if h >= 1 {
			w.forged[h] = c22mk(prev, tss[h], 2, true, window)
		}
		prev = w.chain[h]
	}
	w.local = 5 - verifChoose("localBlocks", 2) // the node has the target only, or the target and its parent
	w.badLeft = verifParam("badAnswers", 2, 3)
	if cancelMode {
		w.badLeft = 0
	}
	getWindow := func(int64) int64 { return window }
	target := w.chain[5]
	tw, err := NewTimeValidityWindow[c22Tx](ctx, logging.NoLog{}, trace.Noop, w, target, getWindow)
	if err != nil {
		verifFail("validity-window-error")
	}
	client := NewBlockFetcherClient[*c22Blk](w, w, w)
	s := NewSyncer[c22Tx, *c22Blk](w, tw, client, getWindow)
	startCtx, cancelStart := context.WithCancel(ctx)
	if err := s.Start(startCtx, target); err != nil {
		verifFail("syncer-start-error")
	}
	newest := target
	if cancelMode {
		for i, k := 0, verifChoose("yieldsBeforeCancel", 4); i < k; i++ {
			verifYield()
		}
		cancelStart()
		for i := 0; i < 6; i++ {
			verifYield()
		}
		select {
		case <-s.doneChan:
			verifReach("done-reported-after-cancel")
		default:
			// not complete: nothing is claimed by the syncer, nothing to check
			verifReach("cancelled-incomplete")
			verifReach("end")
			return
		}
	} else if verifChoose("acceptNextWhileBackfilling", 2) == 1 {
		if err := s.UpdateSyncTarget(ctx, w.chain[6]); err != nil {
			verifFail("update-sync-target-error")
		}
		newest = w.chain[6]
		verifReach("target-updated")
	}
	if err := s.Wait(ctx); err != nil {
		verifFail("backfill-failed")
	}
	verifReach("backfill-done")
	_ = cancelStart

	// (1) every recorded block is the next hash-linked ancestor
	w.mu.Lock()
	saved := append([]*c22Blk{}, w.saved...)
	w.mu.Unlock()
	expect := w.chain[w.local].parent
	for _, b := range saved {
		if b.forged {
			verifFail("forged-block-recorded")
		}
		if b.id != expect {
			verifFail("recorded-block-is-not-the-next-ancestor")
		}
		expect = b.parent
	}
	// (2) tracked transactions = those of the ancestry back past the validity window of the (start) target
	oldest := target.ts - window
	if oldest < 0 {
		oldest = 0
	}
	for h := 1; h < c22Len; h++ {
		b := w.chain[h]
		if b.h > newest.h {
			continue
		}
		marker, err := tw.IsRepeat(ctx, newest, newest.ts, b.txs)
		if err != nil {
			verifFail("is-repeat-error")
		}
		tracked := marker.Contains(0)
		evictable := b.txs[0].expiry < newest.ts // expired for every later block: may be dropped
		if b.ts >= oldest {
			if !tracked {
				if !evictable {
					verifFail("ancestor-transaction-inside-window-not-tracked")
				}
			}
			verifReach("tracked")
		}
		fm, err := tw.IsRepeat(ctx, newest, newest.ts, w.forged[h].txs)
		if err != nil {
			verifFail("is-repeat-error")
		}
		if fm.Contains(0) {
			verifFail("transaction-of-forged-block-tracked")
		}
	}
	verifReach("end")
}
