package validitywindow

// VerifC10Timestamp: VerifyTimestamp accepts only whole-second expiries inside [ts, ts+window], for all int64 triples
// with ts >= 0 and window >= 0 (mathematical comparison, no wrap-around).
func VerifC10Timestamp() {
	exp, ts, win := verifI64("exp"), verifI64("ts"), verifI64("win")
	verifAssume(ts >= 0)
	verifAssume(win >= 0)
	err := VerifyTimestamp(exp, ts, 1000, win)
	if err == nil {
		if exp%1000 != 0 {
			verifFail("misaligned-accepted")
		}
		if exp < ts {
			verifFail("expired-accepted")
		}
		if exp-ts > win { // exp >= ts >= 0 so exp-ts cannot overflow
			verifFail("future-accepted")
		}
		verifReach("accepted")
	} else {
		verifReach("rejected")
	}
	verifReach("end")
}
