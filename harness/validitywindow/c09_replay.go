package validitywindow

import (
	"context"
	"errors"

	"github.com/ava-labs/avalanchego/ids"
	"github.com/ava-labs/avalanchego/trace"
	"github.com/ava-labs/avalanchego/utils/logging"
	"github.com/ava-labs/avalanchego/utils/set"
)

// ---- harness collaborators: transactions, blocks, the chain index the window reads ancestors from ----

// c09Tx: the ID is concrete and distinct per transaction, the expiry is symbolic data (an ID fixes the expiry: it is
// the hash of the signed bytes).
type c09Tx struct {
	n   int
	id  ids.ID
	exp int64
}

func (t *c09Tx) GetID() ids.ID    { return t.id }
func (t *c09Tx) GetExpiry() int64 { return t.exp }

type c09Blk struct {
	n      int // position in the harness tree; 0 = genesis
	parent int
	id     ids.ID
	pid    ids.ID
	ts     int64
	h      uint64
	txs    []*c09Tx
	slow   bool // concurrent harness: reading the block's transactions takes a moment (a scheduling point)
}

func c09BlkID(n int) ids.ID { return ids.ID{0xB0, byte(n + 1)} }

func (b *c09Blk) GetID() ids.ID            { return b.id }
func (b *c09Blk) GetParent() ids.ID        { return b.pid }
func (b *c09Blk) GetTimestamp() int64      { return b.ts }
func (b *c09Blk) GetHeight() uint64        { return b.h }
func (b *c09Blk) GetBytes() []byte         { return nil }
func (b *c09Blk) GetContainers() []*c09Tx {
	if b.slow {
		verifYield()
	}
	return b.txs
}
func (b *c09Blk) String() string           { return "c09blk" }
func (b *c09Blk) Contains(id ids.ID) bool {
	for _, t := range b.txs {
		if t.id == id {
			return true
		}
	}
	return false
}

const c09MaxBlks = 8

// c09Index is what vm.GetExecutionBlock offers: processing (verified, not rejected) blocks and accepted blocks.
type c09Index struct {
	blks [c09MaxBlks]*c09Blk
	live [c09MaxBlks]bool
}

var errC09NotFound = errors.New("c09: block not found")

func (x *c09Index) GetExecutionBlock(_ context.Context, id ids.ID) (ExecutionBlock[*c09Tx], error) {
	if id[0] == 0xB0 {
		n := int(id[1]) - 1
		if n >= 0 && n < c09MaxBlks {
			if x.live[n] {
				return x.blks[n], nil
			}
		}
	}
	return nil, errC09NotFound
}

// c09World: the block tree, consensus status and the window under test.
type c09World struct {
	idx      *c09Index
	nblks    int
	accepted [c09MaxBlks]bool
	lastAcc  int
	window   int64
	txs      []*c09Tx
	tvw      *TimeValidityWindow[*c09Tx]
}

func (w *c09World) newWindow() {
	win := w.window
	tvw, err := NewTimeValidityWindow[*c09Tx](context.Background(), logging.NoLog{}, trace.Noop, w.idx, w.idx.blks[w.lastAcc],
		func(int64) int64 { return win })
	if err != nil {
		verifFail("new-window-error")
	}
	w.tvw = tvw
}

// c09NewWorld: zeroExpiry selects the corner "every transaction expires at time 0" (its own harness); otherwise
// expiries are >= 1.
func c09NewWorld(ntx int, zeroExpiry bool) *c09World {
	w := &c09World{idx: &c09Index{}}
	w.window = verifI64("window")
	verifAssume(w.window >= 0)
	verifAssume(w.window < 1<<40) // no int64 wrap in ts+window (real windows are seconds to minutes, in ms)
	for i := 0; i < ntx; i++ {
		e := verifI64("expiry")
		if zeroExpiry {
			verifAssume(e == 0)
		} else {
			verifAssume(e >= 1)
		}
		w.txs = append(w.txs, &c09Tx{n: i, id: ids.ID{0x77, byte(i + 1)}, exp: e})
	}
	gts := verifI64("ts")
	verifAssume(gts >= 0)
	verifAssume(gts < 1<<50)
	g := &c09Blk{n: 0, parent: -1, id: c09BlkID(0), ts: gts, h: 0}
	w.idx.blks[0], w.idx.live[0] = g, true
	w.accepted[0] = true
	w.nblks = 1
	w.newWindow()
	return w
}

// c09Lists: the transaction lists a block may carry (indices into the universe). A list with tx 1 but not tx 0 is only
// offered once tx 0 has been used (the two transactions are interchangeable). The last two repeat a transaction inside
// the block.
var c09Lists = [][]int{{}, {0}, {1, 0}, {1}, {0, 0}, {1, 0, 0}}

// addBlock creates a child of block p with a symbolic timestamp consistent with the rules (not before its parent;
// the child of genesis only has to be >= 0, see C11) whose transactions are all valid at inclusion (C10).
func (w *c09World) addBlock(p int, list []int) *c09Blk {
	pb := w.idx.blks[p]
	ts := verifI64("ts")
	verifAssume(ts >= 0)
	verifAssume(ts < 1<<50)
	if p != 0 {
		verifAssume(ts >= pb.ts)
	}
	b := &c09Blk{n: w.nblks, parent: p, id: c09BlkID(w.nblks), pid: pb.id, ts: ts, h: pb.h + 1}
	for _, ti := range list {
		t := w.txs[ti]
		verifAssume(t.exp >= ts)
		verifAssume(t.exp-ts <= w.window)
		b.txs = append(b.txs, t)
	}
	return b
}

// inAncestry: does transaction ti occur in block p or any of its ancestors (harness tree, down to genesis)?
func (w *c09World) inAncestry(p int, ti int) bool {
	for n := p; n >= 0; n = w.idx.blks[n].parent {
		for _, t := range w.idx.blks[n].txs {
			if t.n == ti {
				return true
			}
		}
	}
	return false
}

func (w *c09World) failRepeat(what string, t *c09Tx) {
	if t.exp == 0 {
		verifFail(what + "-expiry-zero")
	}
	verifFail(what)
}

// verifyStep: the builder's question and the verifier's question for a new child of p.
// question: 0 = both, 1 = builder only, 2 = verifier only.
func (w *c09World) verifyStep(p int, list []int, question int) bool {
	ctx := context.Background()
	b := w.addBlock(p, list)
	pb := w.idx.blks[p]
	// builder: BuildBlock asks IsRepeat(parent, nextTime, candidates) and packs only unmarked candidates
	// (the mempool never streams one transaction twice, so lists with in-block repeats are no builder input)
	inBlockDup := false
	for i, ti := range list {
		for _, tj := range list[:i] {
			if tj == ti {
				inBlockDup = true
			}
		}
	}
	marker, err := set.Bits{}, errC09NotFound
	if !inBlockDup && question != 2 {
		marker, err = w.tvw.IsRepeat(ctx, pb, b.ts, b.txs)
	}
	if err == nil {
		for i, t := range b.txs {
			if !marker.Contains(i) {
				if w.inAncestry(p, t.n) {
					w.failRepeat("builder-repeat-unmarked", t)
				}
			}
		}
	}
	if question == 1 {
		return false
	}
	// verifier
	if err := w.tvw.VerifyExpiryReplayProtection(ctx, b); err != nil {
		verifReach("rejected")
		return false
	}
	for i, t := range b.txs {
		for j := 0; j < i; j++ {
			if b.txs[j].n == t.n {
				verifFail("in-block-duplicate-verified")
			}
		}
		if w.inAncestry(p, t.n) {
			w.failRepeat("repeat-verified", t)
		}
	}
	if len(list) > 0 {
		verifReach("verified-with-txs")
	}
	w.idx.blks[b.n], w.idx.live[b.n] = b, true
	w.nblks++
	return true
}

// acceptStep: consensus accepts processing block n (a child of the last accepted block); its siblings and their
// descendants are rejected and leave the index.
func (w *c09World) acceptStep(n int) {
	w.tvw.Accept(w.idx.blks[n])
	w.accepted[n] = true
	w.lastAcc = n
	for k := 1; k < w.nblks; k++ {
		if w.idx.live[k] && !w.accepted[k] {
			// keep only descendants of n
			d := k
			for d > 0 && d != n {
				d = w.idx.blks[d].parent
			}
			if d != n {
				w.idx.live[k] = false
			}
		}
	}
}

// restartStep: the node restarts: processing blocks are forgotten, the window is rebuilt from the last accepted block.
func (w *c09World) restartStep() {
	for k := 1; k < w.nblks; k++ {
		if !w.accepted[k] {
			w.idx.live[k] = false
		}
	}
	w.newWindow()
	verifReach("restart")
}

// c09History: every history of at most nOps events over at most maxBlks non-genesis blocks:
//   verify   a new child of the tip (linear) or of any processing / the last accepted block (forks), with any list;
//            before it the builder's IsRepeat question for the same parent, time and candidates
//   accept   a processing child of the last accepted block (siblings and their subtrees are rejected)
//   restart  processing blocks are forgotten, a new window is populated from the last accepted block
// The oracle runs inside every verify event, so shorter histories are covered as prefixes. A history ends with the
// first block that repeats a transaction of its branch or of itself (it must be rejected; what a node does after
// rejecting a block is the same history without the attempt).
func c09History(nOps, maxBlks, ntx int, forks bool, maxRestarts int, zeroExpiry bool) {
	w := c09NewWorld(ntx, zeroExpiry)
	restarts := 0
	used0 := false
	tip := 0
	for i := 0; i < nOps; i++ {
		// candidates for accept: processing children of the last accepted block; parents: processing + last accepted
		var acc []int
		var live []int
		for k := 0; k < w.nblks; k++ {
			if w.idx.live[k] {
				if !w.accepted[k] {
					live = append(live, k)
					if w.idx.blks[k].parent == w.lastAcc {
						acc = append(acc, k)
					}
				} else if k == w.lastAcc {
					live = append(live, k)
				}
			}
		}
		opVerify, opAccept, opRestart, kinds := -1, -1, -1, 0
		if w.nblks <= maxBlks {
			opVerify = kinds
			kinds++
		}
		if len(acc) > 0 {
			opAccept = kinds
			kinds++
		}
		if restarts < maxRestarts && w.nblks > 1 {
			opRestart = kinds
			kinds++
		}
		if kinds == 0 {
			break
		}
		op := verifChoose("op", kinds)
		if op == opVerify {
			p := tip
			if forks {
				p = live[verifChoose("parent", len(live))]
			}
			var opts []int
			for li, l := range c09Lists {
				ok := true
				has0 := false
				for _, ti := range l {
					if ti >= ntx {
						ok = false
					}
					if ti == 0 {
						has0 = true
					}
				}
				if len(l) > 0 && !has0 && !used0 {
					ok = false
				}
				if ok {
					opts = append(opts, li)
				}
			}
			list := c09Lists[opts[verifChoose("list", len(opts))]]
			repeats := false
			for j, ti := range list {
				if ti == 0 {
					used0 = true
				}
				if w.inAncestry(p, ti) {
					repeats = true
				}
				for _, tj := range list[:j] {
					if tj == ti {
						repeats = true
					}
				}
			}
			if w.verifyStep(p, list, 0) {
				tip = w.nblks - 1
			}
			if repeats {
				verifReach("repeat-attempt")
				break
			}
		} else if op == opAccept {
			n := acc[verifChoose("accept", len(acc))]
			w.acceptStep(n)
			if !w.idx.live[tip] {
				tip = n
			}
			verifReach("accept")
		} else if op == opRestart {
			restarts++
			w.restartStep()
			tip = w.lastAcc
		}
	}
	verifReach("end")
}

// c09Chain: one chain of 1..maxLen blocks without repeats (taken as verified: the verifier is not called for them, see
// the forks harness for that), any number of them accepted in order with restarts anywhere in between, then a block on
// the tip that repeats a transaction of the chain or of itself: the builder must mark it, the verifier must reject it.
// Creating blocks does not touch the window, so "create all, then accept" covers every interleaving of the two.
func c09Chain(maxLen, ntx, maxRestarts int, zeroExpiry bool) {
	w := c09NewWorld(ntx, zeroExpiry)
	n := 1 + verifChoose("len", maxLen)
	var used [4]bool
	for i := 1; i <= n; i++ {
		// fresh lists only: {}, or unused transactions (tx 1 alone only after tx 0 was used: interchangeable)
		var opts [][]int
		opts = append(opts, []int{})
		if !used[0] {
			opts = append(opts, []int{0})
			if ntx > 1 && !used[1] {
				opts = append(opts, []int{1, 0})
			}
		} else if ntx > 1 && !used[1] {
			opts = append(opts, []int{1})
		}
		list := opts[verifChoose("list", len(opts))]
		for _, ti := range list {
			used[ti] = true
		}
		b := w.addBlock(i-1, list)
		w.idx.blks[b.n], w.idx.live[b.n] = b, true
		w.nblks++
	}
	verifAssume(used[0]) // something to repeat (in-block repeats are offered below as well, but need no empty chains)
	restarts := 0
	for {
		opAccept, opRestart, kinds := -1, -1, 1
		if w.lastAcc < n {
			opAccept = kinds
			kinds++
		}
		if restarts < maxRestarts {
			opRestart = kinds
			kinds++
		}
		op := verifChoose("op", kinds)
		if op == 0 {
			break
		}
		if op == opAccept {
			w.acceptStep(w.lastAcc + 1)
			verifReach("accept")
		} else if op == opRestart {
			restarts++
			w.newWindow()
			verifReach("restart")
		}
	}
	// the repeating block
	var opts [][]int
	opts = append(opts, []int{0}, []int{0, 0})
	if ntx > 1 {
		if used[1] {
			// both candidate orders: the nearer ancestor's transaction first or last in the builder's batch
			opts = append(opts, []int{1, 0}, []int{1}, []int{0, 1})
		} else {
			opts = append(opts, []int{1, 0}, []int{1, 0, 1})
		}
	}
	list := opts[verifChoose("final", len(opts))]
	verifReach("repeat-attempt")
	question := 0
	if zeroExpiry {
		question = 1 + verifChoose("question", 2) // separate paths, so that each question reports its own finding
	}
	if w.verifyStep(n, list, question) {
		verifFail("harness-oracle-gap") // a repeating block that verified must have been caught by the oracle inside verifyStep
	}
	verifReach("end")
}

// VerifC09Linear: chains with accepted and processing ancestors (accepts lag behind by any distance), restarts, two
// transactions.
func VerifC09Linear() {
	c09Chain(verifParam("maxLen", 2, 3), 2, verifParam("maxRestarts", 1, 1), false)
}

// VerifC09Forks: block trees, every block goes through the builder and verifier questions (a new block may extend any
// processing block or the last accepted one), accepts reject the other branches, restarts; one transaction.
func VerifC09Forks() {
	c09History(verifParam("ops", 4, 5), verifParam("maxBlocks", 3, 3), 1, true, 0, false)
}

// VerifC09ExpiryZero: the same chains with one transaction whose expiry is 0 (valid only in blocks with timestamp 0).
func VerifC09ExpiryZero() {
	c09Chain(verifParam("maxLen", 2, 3), 1, verifParam("maxRestarts", 1, 1), true)
}

// VerifC09Concurrent: block 1 (one transaction) is processing; its acceptance (TimeValidityWindow.Accept, which runs on
// the asynchronous accept goroutine of the VM) races with the verification of — or the builder's question about — a
// child that repeats the transaction. On every interleaving the repeat must be seen: the window must never be in a state
// where block 1 counts as accepted while its transactions are not tracked yet.
func VerifC09Concurrent() {
	ctx := context.Background()
	w := c09NewWorld(1, false)
	b1 := w.addBlock(0, []int{0})
	w.idx.blks[1], w.idx.live[1] = b1, true
	w.nblks = 2
	b2 := w.addBlock(1, []int{0})
	w.idx.blks[2], w.idx.live[2] = b2, true
	w.nblks = 3
	b1.slow = true
	done := make(chan struct{})
	go func() {
		w.tvw.Accept(b1)
		close(done)
	}()
	verifYield()
	if verifChoose("question", 2) == 0 {
		if err := w.tvw.VerifyExpiryReplayProtection(ctx, b2); err == nil {
			verifFail("repeat-verified-while-parent-is-being-accepted")
		}
		verifReach("rejected")
	} else {
		marker, err := w.tvw.IsRepeat(ctx, b1, b2.ts, b2.txs)
		if err == nil {
			if !marker.Contains(0) {
				verifFail("builder-repeat-unmarked-while-parent-is-being-accepted")
			}
		}
		verifReach("marked")
	}
	<-done
	verifReach("end")
}
