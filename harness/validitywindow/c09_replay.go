package validitywindow

import (
	"context"
	"errors"

	"github.com/ava-labs/avalanchego/ids"
	"github.com/ava-labs/avalanchego/trace"
	"github.com/ava-labs/avalanchego/utils/logging"
)

// ---- harness collaborators: transactions, blocks, the chain index the window reads ancestors from ----

// c09Tx: the ID is concrete and distinct per transaction, the expiry is symbolic data (an ID fixes the expiry: it is
// the hash of the signed bytes).
type c09Tx struct {
	n   int
	id  ids.ID
	exp int64
}

func (t *c09Tx) GetID() ids.ID    { return t.id }
func (t *c09Tx) GetExpiry() int64 { return t.exp }

type c09Blk struct {
	n      int // position in the harness tree; 0 = genesis
	parent int
	id     ids.ID
	pid    ids.ID
	ts     int64
	h      uint64
	txs    []*c09Tx
}

func c09BlkID(n int) ids.ID { return ids.ID{0xB0, byte(n + 1)} }

func (b *c09Blk) GetID() ids.ID            { return b.id }
func (b *c09Blk) GetParent() ids.ID        { return b.pid }
func (b *c09Blk) GetTimestamp() int64      { return b.ts }
func (b *c09Blk) GetHeight() uint64        { return b.h }
func (b *c09Blk) GetBytes() []byte         { return nil }
func (b *c09Blk) GetContainers() []*c09Tx  { return b.txs }
func (b *c09Blk) String() string           { return "c09blk" }
func (b *c09Blk) Contains(id ids.ID) bool {
	for _, t := range b.txs {
		if t.id == id {
			return true
		}
	}
	return false
}

const c09MaxBlks = 8

// c09Index is what vm.GetExecutionBlock offers: processing (verified, not rejected) blocks and accepted blocks.
type c09Index struct {
	blks [c09MaxBlks]*c09Blk
	live [c09MaxBlks]bool
}

var errC09NotFound = errors.New("c09: block not found")

func (x *c09Index) GetExecutionBlock(_ context.Context, id ids.ID) (ExecutionBlock[*c09Tx], error) {
	if id[0] == 0xB0 {
		n := int(id[1]) - 1
		if n >= 0 && n < c09MaxBlks {
			if x.live[n] {
				return x.blks[n], nil
			}
		}
	}
	return nil, errC09NotFound
}

// c09World: the block tree, consensus status and the window under test.
type c09World struct {
	idx      *c09Index
	nblks    int
	accepted [c09MaxBlks]bool
	lastAcc  int
	window   int64
	txs      []*c09Tx
	tvw      *TimeValidityWindow[*c09Tx]
}

func (w *c09World) newWindow() {
	win := w.window
	tvw, err := NewTimeValidityWindow[*c09Tx](context.Background(), logging.NoLog{}, trace.Noop, w.idx, w.idx.blks[w.lastAcc],
		func(int64) int64 { return win })
	if err != nil {
		verifFail("new-window-error")
	}
	w.tvw = tvw
}

func c09NewWorld(ntx int) *c09World {
	w := &c09World{idx: &c09Index{}}
	w.window = verifI64("window")
	verifAssume(w.window >= 0)
	verifAssume(w.window < 1<<40) // no int64 wrap in ts+window (real windows are seconds to minutes, in ms)
	for i := 0; i < ntx; i++ {
		e := verifI64("expiry")
		verifAssume(e >= 0)
		w.txs = append(w.txs, &c09Tx{n: i, id: ids.ID{0x77, byte(i + 1)}, exp: e})
	}
	gts := verifI64("ts")
	verifAssume(gts >= 0)
	verifAssume(gts < 1<<50)
	g := &c09Blk{n: 0, parent: -1, id: c09BlkID(0), ts: gts, h: 0}
	w.idx.blks[0], w.idx.live[0] = g, true
	w.accepted[0] = true
	w.nblks = 1
	w.newWindow()
	return w
}

// c09Lists: the transaction lists a block may carry (indices into the universe). Lists 0..3 are duplicate-free; a list
// with tx 1 but not tx 0 is only offered once tx 0 has been used (the two transactions are interchangeable).
var c09Lists = [][]int{{}, {0}, {0, 1}, {1}, {0, 0}, {0, 1, 0}, {1, 0, 0}}

// addBlock creates a child of block p with a symbolic timestamp consistent with the rules (not before its parent;
// the child of genesis only has to be >= 0, see C11) whose transactions are all valid at inclusion (C10).
func (w *c09World) addBlock(p int, list []int) *c09Blk {
	pb := w.idx.blks[p]
	ts := verifI64("ts")
	verifAssume(ts >= 0)
	verifAssume(ts < 1<<50)
	if p != 0 {
		verifAssume(ts >= pb.ts)
	}
	b := &c09Blk{n: w.nblks, parent: p, id: c09BlkID(w.nblks), pid: pb.id, ts: ts, h: pb.h + 1}
	for _, ti := range list {
		t := w.txs[ti]
		verifAssume(t.exp >= ts)
		verifAssume(t.exp-ts <= w.window)
		b.txs = append(b.txs, t)
	}
	return b
}

// inAncestry: does transaction ti occur in block p or any of its ancestors (harness tree, down to genesis)?
func (w *c09World) inAncestry(p int, ti int) bool {
	for n := p; n >= 0; n = w.idx.blks[n].parent {
		for _, t := range w.idx.blks[n].txs {
			if t.n == ti {
				return true
			}
		}
	}
	return false
}

func (w *c09World) failRepeat(what string, t *c09Tx) {
	if t.exp == 0 {
		verifFail(what + "-expiry-zero")
	}
	verifFail(what)
}

// verifyStep: the builder's question and the verifier's question for a new child of p.
func (w *c09World) verifyStep(p int, list []int) bool {
	ctx := context.Background()
	b := w.addBlock(p, list)
	pb := w.idx.blks[p]
	// builder: BuildBlock asks IsRepeat(parent, nextTime, candidates) and packs only unmarked candidates
	marker, err := w.tvw.IsRepeat(ctx, pb, b.ts, b.txs)
	if err == nil {
		for i, t := range b.txs {
			if !marker.Contains(i) {
				if w.inAncestry(p, t.n) {
					w.failRepeat("builder-repeat-unmarked", t)
				}
			}
		}
	}
	// verifier
	if err := w.tvw.VerifyExpiryReplayProtection(ctx, b); err != nil {
		verifReach("rejected")
		return false
	}
	for i, t := range b.txs {
		for j := 0; j < i; j++ {
			if b.txs[j].n == t.n {
				verifFail("in-block-duplicate-verified")
			}
		}
		if w.inAncestry(p, t.n) {
			w.failRepeat("repeat-verified", t)
		}
	}
	if len(list) > 0 {
		verifReach("verified-with-txs")
	}
	w.idx.blks[b.n], w.idx.live[b.n] = b, true
	w.nblks++
	return true
}

// acceptStep: consensus accepts processing block n (a child of the last accepted block); its siblings and their
// descendants are rejected and leave the index.
func (w *c09World) acceptStep(n int) {
	w.tvw.Accept(w.idx.blks[n])
	w.accepted[n] = true
	w.lastAcc = n
	for k := 1; k < w.nblks; k++ {
		if w.idx.live[k] && !w.accepted[k] {
			// keep only descendants of n
			d := k
			for d > 0 && d != n {
				d = w.idx.blks[d].parent
			}
			if d != n {
				w.idx.live[k] = false
			}
		}
	}
}

// restartStep: the node restarts: processing blocks are forgotten, the window is rebuilt from the last accepted block.
func (w *c09World) restartStep() {
	for k := 1; k < w.nblks; k++ {
		if !w.accepted[k] {
			w.idx.live[k] = false
		}
	}
	w.newWindow()
	verifReach("restart")
}

// c09History: every history of nOps events over at most maxBlks non-genesis blocks:
//   verify   a new child of the tip (linear) or of any processing / the last accepted block (forks), with any list;
//            before it the builder's IsRepeat question for the same parent, time and candidates
//   accept   a processing child of the last accepted block (siblings and their subtrees are rejected)
//   restart  processing blocks are forgotten, a new window is populated from the last accepted block
// The oracle runs inside every verify event, so shorter histories are covered as prefixes.
func c09History(nOps, maxBlks, ntx int, forks bool, maxRestarts int, finalLists []int) {
	w := c09NewWorld(ntx)
	restarts := 0
	used0 := false
	tip := 0
	for i := 0; i < nOps; i++ {
		// candidates for accept: processing children of the last accepted block; parents: processing + last accepted
		var acc []int
		var live []int
		for k := 0; k < w.nblks; k++ {
			if w.idx.live[k] {
				if !w.accepted[k] {
					live = append(live, k)
					if w.idx.blks[k].parent == w.lastAcc {
						acc = append(acc, k)
					}
				} else if k == w.lastAcc {
					live = append(live, k)
				}
			}
		}
		opVerify, opAccept, opRestart, kinds := -1, -1, -1, 0
		if w.nblks <= maxBlks {
			opVerify = kinds
			kinds++
		}
		if len(acc) > 0 {
			opAccept = kinds
			kinds++
		}
		if restarts < maxRestarts && w.nblks > 1 {
			opRestart = kinds
			kinds++
		}
		if kinds == 0 {
			break
		}
		op := verifChoose("op", kinds)
		if op == opVerify {
			p := tip
			if forks {
				p = live[verifChoose("parent", len(live))]
			}
			var list []int
			if finalLists != nil && i == nOps-1 {
				list = c09Lists[finalLists[verifChoose("final", len(finalLists))]]
			} else {
				nl := 3
				if used0 && ntx > 1 {
					nl = 4
				}
				if ntx == 1 {
					nl = 2
				}
				li := verifChoose("list", nl)
				if li == 1 || li == 2 {
					used0 = true
				}
				list = c09Lists[li]
			}
			if w.verifyStep(p, list) {
				tip = w.nblks - 1
			}
		} else if op == opAccept {
			n := acc[verifChoose("accept", len(acc))]
			w.acceptStep(n)
			if !w.idx.live[tip] {
				tip = n
			}
			verifReach("accept")
		} else if op == opRestart {
			restarts++
			w.restartStep()
			tip = w.lastAcc
		}
	}
	verifReach("end")
}

// VerifC09Linear: one chain, any interleaving of verify / accept / restart (accepts lag behind verification by any
// distance), two transactions.
func VerifC09Linear() {
	c09History(verifParam("ops", 6, 8), verifParam("maxBlocks", 3, 4), 2, false, verifParam("maxRestarts", 1, 2), nil)
}

// VerifC09Forks: block trees (a new block may extend any processing block or the last accepted one), accepts reject the
// other branches; one transaction.
func VerifC09Forks() {
	c09History(verifParam("ops", 5, 6), verifParam("maxBlocks", 3, 4), 1, true, 0, nil)
}

// VerifC09InBlock: after any linear history, a block that lists one transaction twice.
func VerifC09InBlock() {
	c09History(verifParam("ops", 4, 5), verifParam("maxBlocks", 3, 4), 2, false, 1, []int{4, 5, 6})
}
