package snow

import (
	"context"
	"errors"

	"github.com/ava-labs/avalanchego/ids"
	"github.com/ava-labs/avalanchego/snow/engine/snowman/block"
	"github.com/ava-labs/avalanchego/trace"
	"github.com/ava-labs/avalanchego/utils/logging"
	"github.com/prometheus/client_golang/prometheus"

	"github.com/ava-labs/hypersdk/event"
	"github.com/ava-labs/hypersdk/internal/cache"
	"github.com/ava-labs/hypersdk/utils"

	avacache "github.com/ava-labs/avalanchego/cache"
)

// ---- harness chain: blocks are (parent, height, salt); the ID is the hash of the bytes ----

type c20Blk struct {
	id, parent ids.ID
	h          uint64
	bytes      []byte
	invalid    bool
	n          int // index in the harness' block table
}

func (b *c20Blk) GetID() ids.ID              { return b.id }
func (b *c20Blk) GetParent() ids.ID          { return b.parent }
func (b *c20Blk) GetTimestamp() int64        { return int64(b.h) }
func (b *c20Blk) GetBytes() []byte           { return b.bytes }
func (b *c20Blk) GetHeight() uint64          { return b.h }
func (b *c20Blk) GetContext() *block.Context { return nil }
func (b *c20Blk) String() string             { return "blk" }

func c20new(parent *c20Blk, salt byte, n int) *c20Blk {
	b := &c20Blk{n: n}
	if parent != nil {
		b.parent = parent.id
		b.h = parent.h + 1
	}
	b.bytes = append(append([]byte{}, b.parent[:]...), byte(b.h), salt)
	b.id = utils.ToID(b.bytes)
	return b
}

const c20MaxBlocks = 8

var errC20 = errors.New("harness: invalid block")

type c20World struct {
	blocks  [c20MaxBlocks]*c20Blk
	nblocks int
	// what the chain was asked to do
	chainVerified [c20MaxBlocks]int
	chainAccepted [c20MaxBlocks]int
	acceptOrder   []int
	// notifications
	notVerified, notAccepted, notRejected, notPreRejected, notPreAccepted [c20MaxBlocks]int
	// the consensus engine's view: 0 unknown, 1 verified (processing), 2 accepted, 3 rejected, 4 failed verification
	status   [c20MaxBlocks]int
	lastAcc  int
	built    int // blocks built so far
	inSync   bool
	syncShape  bool // block tree of the state-sync harness
	smallCache bool // accepted-block caches smaller than the accepted queue can hold
	vacuous  [c20MaxBlocks]bool // verified (status 1) while the VM was not ready
}

func (w *c20World) byID(id ids.ID) *c20Blk {
	for i := 0; i < w.nblocks; i++ {
		if w.blocks[i].id == id {
			return w.blocks[i]
		}
	}
	return nil
}

type c20Chain struct{ w *c20World }

func (c *c20Chain) Initialize(context.Context, ChainInput, *VM[*c20Blk, *c20Blk, *c20Blk]) (ChainIndex[*c20Blk], *c20Blk, *c20Blk, bool, error) {
	return nil, nil, nil, false, errors.New("unused")
}
func (c *c20Chain) SetConsensusIndex(*ConsensusIndex[*c20Blk, *c20Blk, *c20Blk]) {}

func (c *c20Chain) BuildBlock(_ context.Context, _ *block.Context, parent *c20Blk) (*c20Blk, *c20Blk, error) {
	w := c.w
	if parent == nil {
		verifFail("build-on-unverified-parent")
	}
	if w.nblocks >= c20MaxBlocks {
		return nil, nil, errors.New("harness: block table full")
	}
	b := c20new(parent, byte(100+w.built), w.nblocks)
	w.built++
	w.blocks[w.nblocks] = b
	w.nblocks++
	return b, b, nil
}

func (c *c20Chain) ParseBlock(_ context.Context, bytes []byte) (*c20Blk, error) {
	id := utils.ToID(bytes)
	if b := c.w.byID(id); b != nil {
		return b, nil
	}
	return nil, errors.New("harness: unparsable")
}

func (c *c20Chain) VerifyBlock(_ context.Context, parent *c20Blk, b *c20Blk) (*c20Blk, error) {
	w := c.w
	if parent == nil {
		verifFail("chain-verify-without-parent-output")
	}
	if parent.id != b.parent {
		verifFail("chain-verify-against-wrong-parent")
	}
	if w.chainVerified[parent.n] == 0 {
		if parent.n != 0 { // genesis is the initial accepted state
			verifFail("chain-verify-on-parent-the-chain-never-verified")
		}
	}
	if b.invalid {
		return nil, errC20
	}
	w.chainVerified[b.n]++
	return b, nil
}

func (c *c20Chain) AcceptBlock(_ context.Context, parent *c20Blk, b *c20Blk) (*c20Blk, error) {
	w := c.w
	if parent == nil {
		if w.smallCache {
			verifFail("small-accepted-cache-accept-without-accepted-parent")
		}
		verifFail("chain-accept-without-accepted-parent")
	}
	if parent.id != b.parent {
		verifFail("chain-accept-against-wrong-parent")
	}
	if w.chainVerified[b.n] == 0 {
		verifFail("chain-accept-of-unverified-block")
	}
	if w.status[b.n] == 3 {
		verifFail("chain-accept-of-rejected-block")
	}
	if w.chainAccepted[b.n] > 0 {
		verifFail("chain-accept-twice")
	}
	if len(w.acceptOrder) > 0 {
		last := w.blocks[w.acceptOrder[len(w.acceptOrder)-1]]
		if last.id != b.parent {
			verifFail("chain-accept-out-of-height-order")
		}
	} else if parent.n != 0 {
		if w.chainAccepted[parent.n] == 0 {
			verifFail("chain-accept-out-of-height-order")
		}
	}
	w.chainAccepted[b.n]++
	w.acceptOrder = append(w.acceptOrder, b.n)
	return b, nil
}

// c20Index: the persistent chain index (map-backed).
type c20Index struct {
	byID map[ids.ID]*c20Blk
	byH  map[uint64]*c20Blk
	last uint64
}

func (i *c20Index) UpdateLastAccepted(_ context.Context, b *c20Blk) error {
	i.byID[b.id] = b
	i.byH[b.h] = b
	i.last = b.h
	return nil
}
func (i *c20Index) GetLastAcceptedHeight(context.Context) (uint64, error) { return i.last, nil }
func (i *c20Index) GetBlock(_ context.Context, id ids.ID) (*c20Blk, error) {
	if b, ok := i.byID[id]; ok {
		return b, nil
	}
	return nil, errors.New("not found")
}
func (i *c20Index) GetBlockIDAtHeight(_ context.Context, h uint64) (ids.ID, error) {
	if b, ok := i.byH[h]; ok {
		return b.id, nil
	}
	return ids.Empty, errors.New("not found")
}
func (i *c20Index) GetBlockIDHeight(_ context.Context, id ids.ID) (uint64, error) {
	if b, ok := i.byID[id]; ok {
		return b.h, nil
	}
	return 0, errors.New("not found")
}
func (i *c20Index) GetBlockByHeight(_ context.Context, h uint64) (*c20Blk, error) {
	if b, ok := i.byH[h]; ok {
		return b, nil
	}
	return nil, errors.New("not found")
}

type c20VM = VM[*c20Blk, *c20Blk, *c20Blk]
type c20SB = StatefulBlock[*c20Blk, *c20Blk, *c20Blk]

// c20setup builds the VM the way Initialize does (minus networking/config parsing), on a block tree
//   G -- A1 -- A2
//    \-- B1 -- B2            (thorough: A1 -- C2 as well; the state-sync harness uses its own shape, see below)
func c20setup(ctx context.Context, w *c20World, parsedCache, acceptedCache int) (*c20VM, *c20Index) {
	g := c20new(nil, 0, 0)
	if w.syncShape {
		// G -- A1 -- A2 -- A3
		//        \-- C2 -- C3
		a1 := c20new(g, 1, 1)
		a2 := c20new(a1, 2, 2)
		c2 := c20new(a1, 3, 3)
		a3 := c20new(a2, 4, 4)
		c3 := c20new(c2, 5, 5)
		w.blocks[0], w.blocks[1], w.blocks[2], w.blocks[3], w.blocks[4], w.blocks[5] = g, a1, a2, c2, a3, c3
		w.nblocks = 6
	} else {
		a1 := c20new(g, 1, 1)
		b1 := c20new(g, 2, 2)
		a2 := c20new(a1, 3, 3)
		b2 := c20new(b1, 4, 4)
		w.blocks[0], w.blocks[1], w.blocks[2], w.blocks[3], w.blocks[4] = g, a1, b1, a2, b2
		w.nblocks = 5
		if verifParam("forkAtHeight2", 0, 1) == 1 {
			w.blocks[5] = c20new(a1, 5, 5)
			w.nblocks = 6
		}
	}
	// at most one block fails verification
	if k := verifChoose("invalidBlock", w.nblocks); k > 0 {
		w.blocks[k].invalid = true
	}
	w.status[0] = 2
	idx := &c20Index{byID: map[ids.ID]*c20Blk{}, byH: map[uint64]*c20Blk{}}
	_ = idx.UpdateLastAccepted(ctx, g)
	metrics, err := newMetrics(prometheus.NewRegistry())
	if err != nil {
		verifFail("metrics-error")
	}
	vm := &c20VM{chain: &c20Chain{w}, metrics: metrics, log: logging.NoLog{}, tracer: trace.Noop}
	vm.acceptedQueue = make(chan *c20SB, acceptedQueueSize)
	vm.shutdownChan = make(chan struct{})
	vm.parsedBlocks = &avacache.LRU[ids.ID, *c20SB]{Size: parsedCache}
	vm.verifiedBlocks = map[ids.ID]*c20SB{}
	vm.acceptedBlocksByID, _ = cache.NewFIFO[ids.ID, *c20SB](acceptedCache)
	vm.acceptedBlocksByHeight, _ = cache.NewFIFO[uint64, ids.ID](acceptedCache)
	vm.AddVerifiedSub(event.SubscriptionFunc[*c20Blk]{NotifyF: func(_ context.Context, b *c20Blk) error { w.notVerified[b.n]++; return nil }})
	vm.AddAcceptedSub(event.SubscriptionFunc[*c20Blk]{NotifyF: func(_ context.Context, b *c20Blk) error { w.notAccepted[b.n]++; return nil }})
	vm.AddRejectedSub(event.SubscriptionFunc[*c20Blk]{NotifyF: func(_ context.Context, b *c20Blk) error { w.notRejected[b.n]++; return nil }})
	vm.AddPreRejectedSub(event.SubscriptionFunc[*c20Blk]{NotifyF: func(_ context.Context, b *c20Blk) error { w.notPreRejected[b.n]++; return nil }})
	vm.AddPreReadyAcceptedSub(event.SubscriptionFunc[*c20Blk]{NotifyF: func(_ context.Context, b *c20Blk) error { w.notPreAccepted[b.n]++; return nil }})
	if err := vm.makeConsensusIndex(ctx, idx, g, g, true); err != nil {
		verifFail("make-consensus-index-error")
	}
	vm.startAsyncAccepter(ctx)
	return vm, idx
}

// c20block returns the engine's handle on block k: what ParseBlock gives it (as the consensus engine does).
func c20block(ctx context.Context, vm *c20VM, w *c20World, k int) *c20SB {
	sb, err := vm.ParseBlock(ctx, w.blocks[k].bytes)
	if err != nil {
		verifFail("parse-error")
	}
	if sb.ID() != w.blocks[k].id {
		verifFail("parse-returns-other-block")
	}
	return sb
}

func c20isAncestorOrSelf(w *c20World, anc, k int) bool {
	for {
		if k == anc {
			return true
		}
		if k == 0 {
			return false
		}
		p := w.byID(w.blocks[k].parent)
		k = p.n
	}
}

// c20step performs one consensus-engine call chosen among those the snowman contract allows in the current state.
func c20step(ctx context.Context, vm *c20VM, w *c20World, allowBuild bool) {
	// legal moves
	var kinds, args []int
	for k := 1; k < w.nblocks; k++ {
		p := w.byID(w.blocks[k].parent).n
		if w.status[k] == 0 {
			if w.status[p] == 1 || (w.status[p] == 2 && p == w.lastAcc) {
				kinds, args = append(kinds, 0), append(args, k) // verify
			}
		}
		if w.status[k] == 1 && p == w.lastAcc {
			kinds, args = append(kinds, 1), append(args, k) // accept (and reject what conflicts)
		}
	}
	if allowBuild && w.built == 0 {
		kinds, args = append(kinds, 2), append(args, 0) // set preference to a processing/accepted block and build on it
	}
	if len(kinds) == 0 {
		return
	}
	m := verifChoose("engineCall", len(kinds))
	k := args[m]
	switch kinds[m] {
	case 0:
		sb := c20block(ctx, vm, w, k)
		if !w.inSync {
			if verifChoose("verifyWithMismatchedPChainContext", 2) == 1 {
				// the engine supplies a P-Chain context the block does not carry: verification must fail and leave no
				// trace (the block stays unverified, the engine may verify it again later)
				if err := sb.VerifyWithContext(ctx, &block.Context{PChainHeight: 7}); err == nil {
					verifFail("mismatched-pchain-context-accepted")
				}
				verifReach("context-mismatch")
				return
			}
		}
		err := sb.Verify(ctx)
		expectFail := w.blocks[k].invalid && !w.inSync
		if (err != nil) != expectFail {
			if err != nil {
				verifFail("valid-block-fails-verification")
			}
			verifFail("invalid-block-passes-verification")
		}
		if err != nil {
			w.status[k] = 4
		} else {
			w.status[k] = 1
			w.vacuous[k] = w.inSync
		}
	case 1:
		sb := c20block(ctx, vm, w, k)
		if err := sb.Accept(ctx); err != nil {
			verifFail("accept-error")
		}
		w.status[k] = 2
		w.lastAcc = k
		// the engine rejects every processing block that conflicts with the accepted one, parents first
		for h := uint64(1); h <= 4; h++ {
			for j := 1; j < w.nblocks; j++ {
				if w.status[j] == 1 && w.blocks[j].h == h && !c20isAncestorOrSelf(w, k, j) {
					rb := c20block(ctx, vm, w, j)
					if err := rb.Reject(ctx); err != nil {
						verifFail("reject-error")
					}
					w.status[j] = 3
					verifReach("rejected")
				}
			}
		}
		verifReach("accepted")
	case 2:
		// preference = some processing block or the last accepted one
		var cands []int
		for j := 0; j < w.nblocks; j++ {
			if w.status[j] == 1 || j == w.lastAcc {
				cands = append(cands, j)
			}
		}
		pref := cands[verifChoose("preference", len(cands))]
		if err := vm.SetPreference(ctx, w.blocks[pref].id); err != nil {
			verifFail("set-preference-error")
		}
		sb, err := vm.BuildBlock(ctx)
		if w.vacuous[pref] {
			// a block accepted/verified vacuously during state sync has no output to build on
			if err == nil {
				if sb.Output == nil {
					verifFail("built-without-output")
				}
			}
			return
		}
		if err != nil {
			verifFail("build-error")
		}
		nb := w.nblocks - 1
		if sb.ID() != w.blocks[nb].id {
			verifFail("build-returns-other-block")
		}
		if w.blocks[nb].parent != w.blocks[pref].id {
			verifFail("built-on-non-preferred-parent")
		}
		// the engine verifies what it built
		if err := sb.Verify(ctx); err != nil {
			verifFail("built-block-fails-verification")
		}
		w.status[nb] = 1
		w.chainVerified[nb]++ // the chain produced the output itself
		verifReach("built")
	}
}

// c20final: after the accepted queue drained, decisions and notifications match one to one and lookups serve the
// accepted chain.
func c20final(ctx context.Context, vm *c20VM, w *c20World) {
	vm.acceptedQueueBlocksProcessedWg.Wait()
	lastH := w.blocks[w.lastAcc].h
	for k := 1; k < w.nblocks; k++ {
		wantAcc, wantRej, wantVer := 0, 0, 0
		switch w.status[k] {
		case 1:
			wantVer = 1
		case 2:
			wantAcc, wantVer = 1, 1
		case 3:
			wantRej, wantVer = 1, 1
		}
		if k >= 5+verifParam("forkAtHeight2", 0, 1) {
			wantVer = 0 // locally built: the chain verified it while building, no verify notification
		}
		if w.chainAccepted[k] != wantAcc {
			verifFail("chain-accept-calls-differ-from-engine-accepts")
		}
		if w.status[k] == 0 || w.status[k] == 4 {
			if w.chainVerified[k] != 0 {
				verifFail("chain-executed-a-block-whose-verify-failed")
			}
		}
		if w.notAccepted[k] != wantAcc {
			verifFail("accepted-notifications-differ-from-engine-accepts")
		}
		if w.notRejected[k] != wantRej {
			verifFail("rejected-notifications-differ-from-engine-rejects")
		}
		if w.notVerified[k] != wantVer {
			verifFail("verified-notifications-differ-from-engine-verifies")
		}
		if w.notPreRejected[k]+w.notPreAccepted[k] != 0 {
			verifFail("pre-ready-notification-in-normal-operation")
		}
		// lookups
		if w.status[k] == 2 {
			sb, err := vm.GetBlock(ctx, w.blocks[k].id)
			if err != nil {
				verifFail("accepted-block-not-found-by-id")
			}
			if sb.ID() != w.blocks[k].id {
				verifFail("lookup-by-id-returns-other-block")
			}
			hb, err := vm.GetBlockByHeight(ctx, w.blocks[k].h)
			if err != nil {
				verifFail("accepted-block-not-found-by-height")
			}
			if hb.ID() != w.blocks[k].id {
				verifFail("lookup-by-height-returns-non-accepted-block")
			}
			hid, err := vm.GetBlockIDAtHeight(ctx, w.blocks[k].h)
			if err != nil {
				verifFail("accepted-id-not-found-by-height")
			}
			if hid != w.blocks[k].id {
				verifFail("id-at-height-returns-non-accepted-block")
			}
		}
	}
	la, _ := vm.LastAccepted(ctx)
	if la != w.blocks[w.lastAcc].id {
		verifFail("last-accepted-differs-from-engine")
	}
	if _, err := vm.GetBlockIDAtHeight(ctx, lastH+1); err == nil {
		verifFail("lookup-above-last-accepted-height-succeeds")
	}
	if len(w.acceptOrder) > 0 {
		if w.acceptOrder[len(w.acceptOrder)-1] != w.lastAcc {
			verifFail("chain-last-accepted-differs-from-engine")
		}
	}
}

// VerifC20SmallCache: the same with accepted-block caches (config AcceptedBlockWindowCache) of size 1..2, i.e. smaller
// than the number of accepted blocks that can wait in the asynchronous accept queue.
func VerifC20SmallCache() {
	ctx := context.Background()
	w := &c20World{smallCache: true}
	vm, _ := c20setup(ctx, w, 1, 1+verifChoose("acceptedCache", 2))
	n := verifParam("engineCalls", 4, 5)
	for i := 0; i < n; i++ {
		c20step(ctx, vm, w, false)
	}
	c20final(ctx, vm, w)
	verifReach("end")
}

// VerifC20: any sequence of up to `engineCalls` consensus-engine calls (parse, verify, accept+reject of the conflicting
// blocks, set-preference+build) allowed by the snowman contract, over a forking block tree with at most one invalid
// block, with the asynchronous accepter goroutine interleaved arbitrarily.
func VerifC20() {
	ctx := context.Background()
	w := &c20World{}
	vm, _ := c20setup(ctx, w, verifParam("parsedCache", 4, 1), verifParam("acceptedCache", 8, 8))
	n := verifParam("engineCalls", 4, 5)
	for i := 0; i < n; i++ {
		c20step(ctx, vm, w, true)
	}
	c20final(ctx, vm, w)
	verifReach("end")
}

// ---- C21: dynamic state sync hand-over ----

// VerifC21: state sync starts at target A1 while the node is at genesis; during sync the engine performs up to
// `syncCalls` calls (vacuous verifies, accepts of valid blocks, rejects) over the tree; sync finishes at any accepted block
// between the start target and the tip. Afterwards the chain's accepted state must be the engine's tip, every processing
// block must have been re-verified (or counted unresolved when it or a processing ancestor is invalid), and the health
// check must report unhealthy exactly until the unresolved blocks are rejected.
func VerifC21() {
	ctx := context.Background()
	w := &c20World{syncShape: true}
	vm, _ := c20setup(ctx, w, 4, 8)
	if w.blocks[1].invalid {
		verifAssume(false) // the sync target is an accepted, hence valid, block
	}
	// start state sync at A1
	if err := vm.StartStateSync(ctx, w.blocks[1]); err != nil {
		verifFail("start-state-sync-error")
	}
	w.inSync = true
	w.status[1] = 2
	w.lastAcc = 1
	n := verifParam("syncCalls", 4, 5)
	for i := 0; i < n; i++ {
		c21syncStep(ctx, vm, w)
	}
	// the syncer finishes on some accepted block from the start target up to the tip
	var accepted []int
	for k := w.lastAcc; ; {
		accepted = append([]int{k}, accepted...)
		if k == 1 {
			break
		}
		k = w.byID(w.blocks[k].parent).n
	}
	synced := accepted[verifChoose("finishAt", len(accepted))]
	w.chainVerified[synced] = 1 // its output/accepted state come from the syncer
	w.chainAccepted[synced] = 1
	sb := w.blocks[synced]
	if err := vm.FinishStateSync(ctx, sb, sb, sb); err != nil {
		verifFail("finish-state-sync-error")
	}
	w.inSync = false
	if !vm.ready {
		verifFail("not-ready-after-finish")
	}
	// (a) accepted state == the engine's tip, reached by executing exactly the blocks after the synced one, in order
	tip := w.blocks[w.lastAcc]
	la, err := vm.GetConsensusIndex().GetLastAccepted(ctx)
	if err != nil {
		verifFail("no-last-accepted-after-finish")
	}
	if la.id != tip.id {
		verifFail("accepted-state-differs-from-engine-tip")
	}
	want := 0
	for _, k := range accepted {
		if w.blocks[k].h > sb.h {
			if want >= len(w.acceptOrder) {
				verifFail("accepted-block-not-executed-after-sync")
			}
			if w.acceptOrder[want] != k {
				verifFail("blocks-executed-out-of-order-after-sync")
			}
			if w.notAccepted[k] != 1 {
				verifFail("reprocessed-block-not-notified-as-accepted")
			}
			want++
			verifReach("reprocessed")
		} else if w.chainAccepted[k] != 0 && k != synced {
			verifFail("block-before-sync-point-executed")
		}
		if k != 1 {
			if w.notPreAccepted[k] != 1 {
				verifFail("accept-during-sync-not-notified-once")
			}
		}
	}
	if want != len(w.acceptOrder) {
		verifFail("unexpected-block-executed-after-sync")
	}
	// (b) processing blocks re-verified against the accepted state
	unresolved := 0
	var bad [c20MaxBlocks]bool
	for h := uint64(1); h <= 4; h++ {
		for k := 1; k < w.nblocks; k++ {
			if w.status[k] != 1 || w.blocks[k].h != h {
				continue
			}
			p := w.byID(w.blocks[k].parent).n
			ok := !w.blocks[k].invalid
			if bad[p] {
				ok = false
			}
			if w.status[p] != 2 && w.status[p] != 1 {
				ok = false
			}
			st, err := vm.GetBlock(ctx, w.blocks[k].id)
			if err != nil {
				verifFail("processing-block-lost")
			}
			if st.verified != ok {
				if ok {
					verifFail("valid-processing-block-not-reverified")
				}
				verifFail("invalid-processing-block-counts-as-verified")
			}
			if ok {
				if w.chainVerified[k] != 1 {
					verifFail("processing-block-not-reverified-exactly-once")
				}
				verifReach("reverified")
			} else {
				bad[k] = true
				unresolved++
			}
		}
	}
	// (c) health: unhealthy exactly while a failed processing block has not been rejected
	for {
		_, herr := vm.HealthCheck(ctx)
		if (herr != nil) != (unresolved > 0) {
			if herr == nil {
				verifFail("healthy-with-unresolved-invalid-processing-block")
			}
			verifFail("unhealthy-without-unresolved-block")
		}
		if unresolved == 0 {
			break
		}
		verifReach("unhealthy")
		for k := 1; k < w.nblocks; k++ {
			if bad[k] {
				rb := c20block(ctx, vm, w, k)
				if err := rb.Reject(ctx); err != nil {
					verifFail("reject-error")
				}
				w.status[k] = 3
				bad[k] = false
				unresolved--
				break
			}
		}
	}
	// (d) normal operation continues on the re-verified state (the chain-side checks of C20 are active)
	for i := 0; i < verifParam("callsAfterSync", 2, 3); i++ {
		c20step(ctx, vm, w, false)
	}
	vm.acceptedQueueBlocksProcessedWg.Wait()
	la2, _ := vm.LastAccepted(ctx)
	if la2 != w.blocks[w.lastAcc].id {
		verifFail("last-accepted-differs-from-engine")
	}
	verifReach("end")
}

// c21syncStep: one engine call during dynamic state sync (the VM is not ready: verification is vacuous).
func c21syncStep(ctx context.Context, vm *c20VM, w *c20World) {
	var kinds, args []int
	for k := 1; k < w.nblocks; k++ {
		p := w.byID(w.blocks[k].parent).n
		if w.status[k] == 0 {
			if w.status[p] == 1 || (w.status[p] == 2 && p == w.lastAcc) {
				kinds, args = append(kinds, 0), append(args, k)
			}
		}
		// the network only accepts valid blocks
		if w.status[k] == 1 && p == w.lastAcc && !w.blocks[k].invalid {
			kinds, args = append(kinds, 1), append(args, k)
		}
	}
	if len(kinds) == 0 {
		return
	}
	m := verifChoose("engineCall", len(kinds))
	k := args[m]
	sb := c20block(ctx, vm, w, k)
	switch kinds[m] {
	case 0:
		if err := sb.Verify(ctx); err != nil {
			verifFail("verify-fails-during-state-sync")
		}
		w.status[k] = 1
		w.vacuous[k] = true
	case 1:
		if err := sb.Accept(ctx); err != nil {
			verifFail("accept-error-during-state-sync")
		}
		w.status[k] = 2
		w.lastAcc = k
		for h := uint64(1); h <= 4; h++ {
			for j := 1; j < w.nblocks; j++ {
				if w.status[j] == 1 && w.blocks[j].h == h && !c20isAncestorOrSelf(w, k, j) {
					rb := c20block(ctx, vm, w, j)
					if err := rb.Reject(ctx); err != nil {
						verifFail("reject-error")
					}
					if w.notPreRejected[j] != 1 {
						verifFail("reject-during-sync-not-notified")
					}
					w.status[j] = 3
				}
			}
		}
		verifReach("accepted-during-sync")
	}
}
